package main

// Solver driver: each obligation is raced on z3 4.8.12, z3 5.1.0 (z3-new) and cvc5.

import (
	"bytes"
	"context"
	"fmt"
	"os"
	"os/exec"
	"path/filepath"
	"strings"
	"sync"
	"time"
)

type solverSpec struct {
	name string
	argv func(file string, timeout time.Duration) []string
}

var solvers = []solverSpec{
	{"z3-5.1.0", func(f string, to time.Duration) []string {
		return []string{"z3-new", fmt.Sprintf("-T:%d", int(to.Seconds())+1), "-smt2", f}
	}},
	{"z3-4.8.12", func(f string, to time.Duration) []string {
		return []string{"z3", fmt.Sprintf("-T:%d", int(to.Seconds())+1), "-smt2", f}
	}},
	{"cvc5-1.0", func(f string, to time.Duration) []string {
		return []string{"cvc5", "--enum-inst", fmt.Sprintf("--tlimit=%d", to.Milliseconds()), f}
	}},
}

type solverAnswer struct {
	solver string
	result string // unsat, sat, unknown, timeout, error
	output string
	ms     int64
}

func runSolver(ctx context.Context, sp solverSpec, file string, timeout time.Duration) solverAnswer {
	argv := sp.argv(file, timeout)
	cctx, cancel := context.WithTimeout(ctx, timeout+2*time.Second)
	defer cancel()
	cmd := exec.CommandContext(cctx, argv[0], argv[1:]...)
	var out bytes.Buffer
	cmd.Stdout = &out
	cmd.Stderr = &out
	start := time.Now()
	_ = cmd.Run()
	ms := time.Since(start).Milliseconds()
	text := out.String()
	first := ""
	for _, l := range strings.Split(text, "\n") {
		// z3 prints warnings (e.g. "'if' cannot be used in patterns", the pattern is then ignored) before its answer
		if l = strings.TrimSpace(l); l != "" && !strings.HasPrefix(l, "WARNING:") {
			first = l
			break
		}
	}
	res := "error"
	switch {
	case first == "unsat":
		res = "unsat"
	case first == "sat":
		res = "sat"
	case first == "unknown":
		res = "unknown"
	case strings.Contains(first, "timeout") || cctx.Err() != nil:
		res = "timeout"
	case strings.Contains(text, "interrupted by timeout") || strings.Contains(text, "cvc5 interrupted"):
		res = "timeout"
	}
	return solverAnswer{sp.name, res, text, ms}
}

// decide races the solvers; first unsat or sat wins. With cross=true a second solver must agree on unsat.
func decide(file, weakFile string, timeout time.Duration, cross bool, sem chan struct{}) (best solverAnswer, all []solverAnswer) {
	ctx, cancel := context.WithCancel(context.Background())
	defer cancel()
	// the weak variant (fewer assumptions: index injectivity instead of index arithmetic) only counts
	// when it proves the goal; it is tried by one solver next to the full variant.
	nTotal := len(solvers)
	if weakFile != "" {
		nTotal++
	}
	ch := make(chan solverAnswer, nTotal)
	run := func(sp solverSpec, f string, weak bool) {
		go func() {
			sem <- struct{}{}
			defer func() { <-sem }()
			if ctx.Err() != nil {
				ch <- solverAnswer{sp.name, "cancelled", "", 0}
				return
			}
			a := runSolver(ctx, sp, f, timeout)
			if weak {
				a.solver += "(ix-injective)"
				if a.result != "unsat" {
					a.result = "cancelled" // a weaker context that does not prove the goal says nothing
				}
			}
			ch <- a
		}()
	}
	launch := func(sp solverSpec) { run(sp, file, false) }
	launch(solvers[0])
	launched := 1
	weakLaunched := weakFile == ""
	timer := time.NewTimer(700 * time.Millisecond)
	defer timer.Stop()
	got := 0
	unsats := 0
	confirm := make(<-chan time.Time)
	for got < nTotal {
		select {
		case <-confirm:
			return best, all // cross-check window over: first answer stands, unconfirmed
		case <-timer.C:
			for launched < len(solvers) {
				launch(solvers[launched])
				launched++
			}
			if !weakLaunched {
				weakLaunched = true
				run(solvers[0], weakFile, true)
			}
		case a := <-ch:
			got++
			if a.result != "cancelled" {
				all = append(all, a)
			}
			switch a.result {
			case "unsat":
				unsats++
				if best.result != "unsat" {
					best = a
				}
				if !cross || unsats >= 2 {
					return best, all
				}
				if unsats == 1 {
					confirm = time.After(20 * time.Second)
				}
			case "sat":
				if best.result != "unsat" {
					best = a
					return best, all
				}
			default:
				if best.result == "" || (best.result != "unsat" && best.result != "sat" && a.result == "unknown") {
					best = a
				}
			}
			for launched < len(solvers) {
				launch(solvers[launched])
				launched++
			}
			if !weakLaunched {
				weakLaunched = true
				run(solvers[0], weakFile, true)
			}
		}
	}
	return best, all
}

// solveAll discharges the obligations of one translated function.
func solveAll(ts []*fnTrans, outDir string, timeout time.Duration, cross bool, workers int) {
	type job struct {
		t *fnTrans
		o *Obligation
	}
	var jobs []job
	for _, t := range ts {
		for _, o := range t.obls {
			if o.Result != "" {
				continue // decided without a solver (SSA sweeps)
			}
			jobs = append(jobs, job{t, o})
		}
	}
	sem := make(chan struct{}, workers)
	var wg sync.WaitGroup
	jch := make(chan job)
	for w := 0; w < workers; w++ {
		wg.Add(1)
		go func() {
			defer wg.Done()
			for j := range jch {
				dir := filepath.Join(outDir, "vc", fileSafe(j.t.name))
				os.MkdirAll(dir, 0o755)
				file := filepath.Join(dir, fileSafe(strings.TrimPrefix(j.o.Name, j.t.name+"/"))+".smt2")
				text := j.t.vc(j.o, false)
				os.WriteFile(file, []byte(text), 0o644)
				weakFile := ""
				if j.o.Kind != "cover" && strings.Contains(text, "(ix ") {
					weakFile = strings.TrimSuffix(file, ".smt2") + ".weak.smt2"
					os.WriteFile(weakFile, []byte(j.t.vc(j.o, true)), 0o644)
				}
				j.o.VCFile = file
				if len(text) > 4<<20 {
					j.o.Result = "too-large"
					continue
				}
				var best solverAnswer
				var all []solverAnswer
				if j.o.Kind == "cover" {
					// vacuity guard: only an `unsat` answer matters; one solver, short limit
					sem <- struct{}{}
					best = runSolver(context.Background(), solvers[0], file, 1500*time.Millisecond)
					<-sem
					all = []solverAnswer{best}
				} else {
					best, all = decide(file, weakFile, timeout, cross, sem)
				}
				j.o.Result = best.result
				j.o.Solver = best.solver
				j.o.TimeMS = best.ms
				j.o.Outputs = map[string]string{}
				for _, a := range all {
					o := a.output
					if len(o) > 4000 {
						o = o[:4000] + "…"
					}
					j.o.Outputs[a.solver] = fmt.Sprintf("%s (%d ms)\n%s", a.result, a.ms, o)
				}
				if best.result == "sat" {
					j.o.Model = best.output
				}
				for _, a := range all {
					if a.result == "unsat" {
						j.o.Confirmed++
					}
				}
			}
		}()
	}
	for _, j := range jobs {
		jch <- j
	}
	close(jch)
	wg.Wait()
	// Second pass: an obligation that ended undecided (timeout / unknown / solver error) is tried once more with three times the limit
	// and little competition (3 at a time) - on a loaded machine a goal that needs a few seconds can miss the first limit. Only a proof
	// changes the verdict; at most 10 obligations are retried (a change that breaks more than that is not a load artefact).
	var retry []job
	for _, j := range jobs {
		if j.o.Kind != "cover" && (j.o.Result == "timeout" || j.o.Result == "unknown" || j.o.Result == "error") && j.o.VCFile != "" {
			retry = append(retry, j)
		}
	}
	if len(retry) == 0 || len(retry) > 10 || os.Getenv("NSQVC_NO_RETRY") != "" {
		return
	}
	sem2 := make(chan struct{}, 3*len(solvers))
	var wg2 sync.WaitGroup
	lim := make(chan struct{}, 3)
	for _, j := range retry {
		wg2.Add(1)
		go func(j job) {
			defer wg2.Done()
			lim <- struct{}{}
			defer func() { <-lim }()
			weakFile := strings.TrimSuffix(j.o.VCFile, ".smt2") + ".weak.smt2"
			if _, err := os.Stat(weakFile); err != nil {
				weakFile = ""
			}
			best, all := decide(j.o.VCFile, weakFile, 3*timeout, false, sem2)
			if best.result == "unsat" {
				j.o.Result, j.o.Solver, j.o.TimeMS = best.result, best.solver+" (second pass)", best.ms
				j.o.Confirmed = 1
			}
			for _, a := range all {
				o := a.output
				if len(o) > 2000 {
					o = o[:2000] + "…"
				}
				j.o.Outputs[a.solver+" second pass"] = fmt.Sprintf("%s (%d ms)\n%s", a.result, a.ms, o)
			}
		}(j)
	}
	wg2.Wait()
}
