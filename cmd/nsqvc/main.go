package main

import (
	"fmt"
	"os"

	"golang.org/x/tools/go/packages"
	"golang.org/x/tools/go/ssa"
	"golang.org/x/tools/go/ssa/ssautil"
)

func main() {
	cfg := &packages.Config{Mode: packages.LoadSyntax, Dir: "/repo", BuildFlags: []string{"-tags=verif"}}
	pkgs, err := packages.Load(cfg, os.Args[1:]...)
	if err != nil {
		panic(err)
	}
	prog, spkgs := ssautil.Packages(pkgs, ssa.NaiveForm)
	_ = prog
	for _, p := range spkgs {
		p.Build()
		if f := p.Func("ByteToBase10"); f != nil {
			f.WriteTo(os.Stdout)
		}
		fmt.Println(p.Pkg.Path())
	}
}
