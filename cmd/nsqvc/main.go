package main

// nsqvc: contract-based deductive verifier for nsqio/nsq (own VC generator over go/ssa).
//
//   nsqvc check -prop C12 [-tier quick|thorough] [-fn substr]
//   nsqvc lock                       regenerate contracts.lock from the current tree
//   nsqvc dump -fn substr            print SSA and obligations of matching functions
//   nsqvc uncovered                  list the repository functions (incl. function literals) without a contract

import (
	"encoding/json"
	"flag"
	"fmt"
	"go/types"
	"os"
	"os/exec"
	"path/filepath"
	"sort"
	"strings"
	"time"

	"golang.org/x/tools/go/ssa"
)

const verifDir = "/verif"

var extraTrusted *string

func main() {
	if len(os.Args) < 2 {
		fmt.Fprintln(os.Stderr, "usage: nsqvc check|lock|dump|uncovered ...")
		os.Exit(2)
	}
	cmd := os.Args[1]
	fs := flag.NewFlagSet(cmd, flag.ExitOnError)
	prop := fs.String("prop", "", "property id")
	tier := fs.String("tier", "quick", "quick|thorough")
	fnFilter := fs.String("fn", "", "only functions whose name contains this")
	repo := fs.String("repo", "/repo", "repository root")
	outDir := fs.String("out", filepath.Join(verifDir, "out"), "scratch output directory")
	noReplay := fs.Bool("noreplay", false, "skip replay of counterexamples")
	verbose := fs.Bool("v", false, "verbose")
	extraTrusted = fs.String("trusted", "", "additional directory with *.spec files (trusted library contracts)")
	fs.Parse(os.Args[2:])
	switch cmd {
	case "check":
		if os.Getenv("NSQVC_NO_REPLAY") != "" { // selftest runs over the seeded corpus: the demonstrations are known, skip them
			*noReplay = true
		}
		os.Exit(runCheck(*repo, *prop, *tier, *fnFilter, *outDir, *noReplay, *verbose))
	case "lock":
		os.Exit(runLock(*repo, *outDir))
	case "dump":
		os.Exit(runDump(*repo, *fnFilter))
	case "uncovered":
		os.Exit(runUncovered(*repo))
	}
	fmt.Fprintln(os.Stderr, "unknown command", cmd)
	os.Exit(2)
}

func contractPkgs(e *Engine, prop, fnFilter string) []string {
	set := map[string]bool{}
	for _, fc := range e.contracts.Funcs {
		set[fc.PkgPath] = true
	}
	var ps []string
	for p := range set {
		ps = append(ps, p)
	}
	sort.Strings(ps)
	return ps
}

func hasProp(ps []string, p string) bool {
	for _, x := range ps {
		if x == p {
			return true
		}
	}
	return false
}

func setup(repo string) (*Engine, error) {
	var extra []string
	if extraTrusted != nil && *extraTrusted != "" {
		extra = append(extra, *extraTrusted)
	}
	trustedDir := filepath.Join(verifDir, "lib", "trusted")
	if d := os.Getenv("NSQVC_TRUSTED_DIR"); d != "" {
		// development aid for contract authors working on a scratch copy: a private copy of lib/trusted.
		// The registered checks never set it.
		trustedDir = d
	}
	e, err := newEngine(repo, trustedDir, extra...)
	if err != nil {
		return nil, err
	}
	pkgs := contractPkgs(e, "", "")
	if len(pkgs) == 0 {
		return nil, fmt.Errorf("no contract files found under %s", repo)
	}
	if err := e.load(pkgs); err != nil {
		return nil, err
	}
	return e, nil
}

func runDump(repo, filter string) int {
	e, err := setup(repo)
	if err != nil {
		fmt.Fprintln(os.Stderr, "nsqvc:", err)
		return 2
	}
	for _, fc := range e.contracts.Funcs {
		fn := e.contractFn[fc]
		if fn == nil || !strings.Contains(e.displayName(fn), filter) {
			continue
		}
		fn.WriteTo(os.Stdout)
		t, err := e.translate(fc)
		if err != nil {
			fmt.Println("ERROR:", err)
		}
		if t != nil {
			for _, o := range t.obls {
				fmt.Printf("  %-70s %s  [%s]\n", o.Name, o.Pos, o.Desc)
			}
		}
	}
	return 0
}

// runUncovered lists every function of the loaded repository packages (methods and function literals included) that has no contract.
func runUncovered(repo string) int {
	e, err := setup(repo)
	if err != nil {
		fmt.Fprintln(os.Stderr, "nsqvc:", err)
		return 2
	}
	total, without := 0, 0
	var lines []string
	for path, sp := range e.ssaPkgs {
		if !e.built[path] || !e.inRepo(path) {
			continue
		}
		seen := map[*ssa.Function]bool{}
		var visit func(f *ssa.Function)
		visit = func(f *ssa.Function) {
			if f == nil || seen[f] || len(f.Blocks) == 0 || f.Synthetic != "" {
				return
			}
			seen[f] = true
			if pos := e.fset.Position(f.Pos()); strings.HasSuffix(pos.Filename, "_test.go") {
				return
			}
			total++
			if e.fnContract[f] == nil {
				without++
				lines = append(lines, fmt.Sprintf("%s\t%s", e.displayName(f), e.fset.Position(f.Pos())))
			}
			for _, a := range f.AnonFuncs {
				visit(a)
			}
		}
		for _, m := range sp.Members {
			switch m := m.(type) {
			case *ssa.Function:
				visit(m)
			case *ssa.Type:
				for _, recv := range []types.Type{m.Type(), types.NewPointer(m.Type())} {
					ms := e.prog.MethodSets.MethodSet(recv)
					for i := 0; i < ms.Len(); i++ {
						if f := e.prog.MethodValue(ms.At(i)); f != nil && f.Pkg == sp {
							visit(f)
						}
					}
				}
			}
		}
	}
	sort.Strings(lines)
	for _, l := range lines {
		fmt.Println(l)
	}
	fmt.Printf("%d functions (incl. function literals) in the loaded repository packages, %d without a contract\n", total, without)
	return 0
}

type lockFile map[string][]string

func readLock() lockFile {
	lf := lockFile{}
	data, err := os.ReadFile(filepath.Join(verifDir, "contracts.lock"))
	if err == nil {
		json.Unmarshal(data, &lf)
	}
	return lf
}

func runLock(repo, outDir string) int {
	e, err := setup(repo)
	if err != nil {
		fmt.Fprintln(os.Stderr, "nsqvc:", err)
		return 2
	}
	lf := lockFile{}
	props := map[string]bool{}
	for _, fc := range e.contracts.Funcs {
		for _, p := range fc.Props {
			props[p] = true
		}
	}
	cache := map[*FuncContract]*fnTrans{}
	for p := range props {
		funcs, _ := propFuncs(e, p)
		for _, fc := range funcs {
			if fc.Trusted {
				continue
			}
			t := cache[fc]
			if t == nil {
				var err error
				t, err = e.translate(fc)
				if err != nil {
					fmt.Fprintln(os.Stderr, "nsqvc:", err)
					return 2
				}
				cache[fc] = t
			}
			for _, o := range t.obls {
				if o.Kind == "safety" || o.Kind == "cover" {
					continue // safety sites move with harmless edits; their count is not locked
				}
				lf[p] = append(lf[p], o.Name)
			}
		}
	}
	for _, l := range e.contracts.Lemmas {
		for _, p := range l.Props {
			if !l.Axiom {
				lf[p] = append(lf[p], "lemma/"+l.Name)
			}
		}
	}
	for p := range lf {
		sort.Strings(lf[p])
		lf[p] = uniq(lf[p])
	}
	data, _ := json.MarshalIndent(lf, "", " ")
	os.WriteFile(filepath.Join(verifDir, "contracts.lock"), append(data, '\n'), 0o644)
	n := 0
	for _, v := range lf {
		n += len(v)
	}
	fmt.Printf("contracts.lock: %d properties, %d locked obligations\n", len(lf), n)
	return 0
}

// propFuncs: the functions whose obligations make up the check of a property: those whose contract names the property
// (`props`), plus - transitively - every repository function whose VERIFIED contract is relied upon at a call site inside one of them
// (a caller is checked against the callee's contract, so the property's proof depends on the callee's own proof as well).
// Returned in the order of e.contracts.Funcs; dep[fc] is true for functions included by dependency only.
func propFuncs(e *Engine, prop string) ([]*FuncContract, map[*FuncContract]bool) {
	if os.Getenv("NSQVC_NO_CLOSURE") != "" {
		var out []*FuncContract
		for _, fc := range e.contracts.Funcs {
			if hasProp(fc.Props, prop) {
				out = append(out, fc)
			}
		}
		return out, map[*FuncContract]bool{}
	}
	sel := map[*FuncContract]bool{}
	dep := map[*FuncContract]bool{}
	var queue []*FuncContract
	// every function under contract that is DEFINED in a file the property is anchored in belongs to the property's check,
	// whatever its `props` line says (the anchors are "the code the property depends on")
	anchored := map[string]bool{}
	for _, f := range anchorFiles(prop) {
		anchored[filepath.Join(e.repo, f)] = true
	}
	for _, fc := range e.contracts.Funcs {
		if hasProp(fc.Props, prop) {
			queue = append(queue, fc)
			continue
		}
		if fn := e.contractFn[fc]; fn != nil && !fc.Extern && len(anchored) > 0 {
			pos := fn.Pos()
			if !pos.IsValid() && fn.Parent() != nil {
				pos = fn.Parent().Pos()
			}
			if pos.IsValid() && anchored[e.fset.Position(pos).Filename] {
				dep[fc] = true
				queue = append(queue, fc)
			}
		}
	}
	for len(queue) > 0 {
		fc := queue[0]
		queue = queue[1:]
		if sel[fc] {
			continue
		}
		sel[fc] = true
		if fc.Trusted || e.bindErr[fc] != nil {
			continue
		}
		t, err := e.translate(fc)
		if err != nil {
			continue
		}
		for _, m := range []map[string]*FuncContract{t.usedContracts, t.spawned, t.shadowed} {
			for _, used := range m {
				if used == nil || used.Extern || e.contractFn[used] == nil || sel[used] {
					continue
				}
				if !hasProp(used.Props, prop) {
					dep[used] = true
				}
				queue = append(queue, used)
			}
		}
	}
	var out []*FuncContract
	for _, fc := range e.contracts.Funcs {
		if sel[fc] {
			out = append(out, fc)
		}
	}
	return out, dep
}

func runCheck(repo, prop, tier, fnFilter, outDir string, noReplay, verbose bool) int {
	start := time.Now()
	if prop == "" {
		fmt.Fprintln(os.Stderr, "nsqvc check: -prop required")
		return 2
	}
	e, err := setup(repo)
	if err != nil {
		fmt.Fprintln(os.Stderr, "nsqvc: cannot decide (engine error, fail closed):", err)
		return 2
	}
	timeout := 25 * time.Second
	cross := false
	if tier == "thorough" {
		timeout = 120 * time.Second
		cross = true
	}
	out := filepath.Join(outDir, prop)
	os.RemoveAll(out)
	os.MkdirAll(out, 0o755)
	var ts []*fnTrans
	var trusted []*FuncContract
	funcs, depOnly := propFuncs(e, prop)
	for _, fc := range funcs {
		if be := e.bindErr[fc]; be != nil {
			ts = append(ts, bindFailure(e, fc, prop, be))
			continue
		}
		if fnFilter != "" && !strings.Contains(e.displayName(e.contractFn[fc]), fnFilter) {
			continue
		}
		if fc.Trusted {
			trusted = append(trusted, fc)
			continue
		}
		t, err := e.translate(fc)
		if err != nil {
			// The contract no longer binds to the function's code (a clause names something that is
			// gone, or the body left the supported subset): the obligations of this function cannot be
			// generated, so the proof that passed before is lost. Reported as the failed obligation
			// <func>/contract-binds (no input: nothing was solved).
			ts = append(ts, bindFailure(e, fc, prop, err))
			continue
		}
		t.addCovers()
		ts = append(ts, t)
	}
	lt := e.lemmaTrans(prop)
	if lt != nil {
		ts = append(ts, lt)
	}
	usedImmut := map[string]bool{}
	for _, t := range ts {
		for k := range t.usedImmut {
			usedImmut[k] = true
		}
	}
	if st := e.immutableSweep(usedImmut, prop); st != nil {
		ts = append(ts, st)
	}
	usedCI := map[string]bool{}
	for _, t := range ts {
		for k := range t.usedChanInv {
			usedCI[k] = true
		}
	}
	if st := e.chanInvSweep(usedCI, prop); st != nil {
		ts = append(ts, st)
	}
	if len(ts) == 0 {
		fmt.Fprintf(os.Stderr, "nsqvc: no function under contract serves %s\n", prop)
		return 2
	}
	solveAll(ts, out, timeout, cross, 16)
	rep := buildReport(e, prop, tier, ts, trusted, out, noReplay, fnFilter == "")
	for fc := range depOnly {
		if fn := e.contractFn[fc]; fn != nil {
			rep.DepFuncs = append(rep.DepFuncs, e.displayName(fn))
		}
	}
	sort.Strings(rep.DepFuncs)
	if tier == "thorough" && fnFilter == "" && os.Getenv("NSQVC_NO_CANARIES") == "" {
		rep.Canaries = runCanaries(prop, repo)
	}
	rep.Anchors = anchorCoverage(e, prop)
	rep.WallS = time.Since(start).Seconds()
	rep.print(verbose)
	if fnFilter == "" {
		evDir := filepath.Join(verifDir, "evidence")
		if d := os.Getenv("NSQVC_EVIDENCE_DIR"); d != "" {
			evDir = d // selftest runs on a deliberately broken /repo must not overwrite the evidence of the real tree
			os.MkdirAll(evDir, 0o755)
		} else if repo != "/repo" {
			evDir = filepath.Join(outDir, "evidence") // scratch copies never touch the committed evidence
			os.MkdirAll(evDir, 0o755)
		}
		if err := rep.writeEvidence(filepath.Join(evDir, prop+".json")); err != nil {
			fmt.Fprintln(os.Stderr, "nsqvc: cannot write evidence:", err)
			return 2
		}
	}
	if rep.Violations > 0 {
		return 1
	}
	if rep.EngineFault {
		return 2
	}
	if os.Getenv("NSQVC_KEEP_VC") == "" {
		// every obligation discharged: the SMT files (hundreds of MB per property) are not needed any more
		os.RemoveAll(filepath.Join(out, "vc"))
	}
	return 0
}

func bindFailure(e *Engine, fc *FuncContract, prop string, err error) *fnTrans {
	name := fc.Name
	if fn := e.contractFn[fc]; fn != nil {
		name = e.displayName(fn)
	}
	t := &fnTrans{eng: e, fn: e.contractFn[fc], fc: fc, name: name, vars: map[string]*StateVar{}}
	o := &Obligation{Name: name + "/contract-binds", Fn: name, Kind: "binds", Props: []string{prop},
		Desc:   "every clause of the contract binds to the function's current code and the body is inside the supported subset",
		Pos:    fmt.Sprintf("%s:%d", fc.File, fc.Line),
		Result: "violated", Solver: "binder",
		Outputs: map[string]string{"binder": err.Error()}}
	t.obls = append(t.obls, o)
	return t
}

// runCanaries (thorough tier): every confirmed seeded change of this property under /verif/seeded is
// applied to a scratch copy of the repository (removed afterwards) and must make the check fail.
// The results are recorded in the evidence; they do not change the verdict on /repo itself.
func runCanaries(prop, repo string) []map[string]interface{} {
	var out []map[string]interface{}
	dirs, _ := filepath.Glob(filepath.Join(verifDir, "seeded", "*"))
	sort.Strings(dirs)
	for _, d := range dirs {
		meta, err := os.ReadFile(filepath.Join(d, "meta.json"))
		if err != nil {
			continue
		}
		var m map[string]interface{}
		json.Unmarshal(meta, &m)
		if m["property"] != prop {
			continue
		}
		res := map[string]interface{}{"seed": filepath.Base(d)}
		scratch, err := os.MkdirTemp("", "nsqvc-canary")
		if err != nil {
			continue
		}
		func() {
			defer os.RemoveAll(scratch)
			if o, err := exec.Command("rsync", "-a", "--exclude", ".git", repo+"/", scratch+"/").CombinedOutput(); err != nil {
				res["error"] = "copy failed: " + string(o)
				return
			}
			ap := exec.Command("patch", "-p1", "-s", "-i", filepath.Join(d, "patch.diff"))
			ap.Dir = scratch
			if o, err := ap.CombinedOutput(); err != nil {
				res["error"] = "patch does not apply to the current tree: " + strings.TrimSpace(string(o))
				return
			}
			e, err := setup(scratch)
			if err != nil {
				res["detected"] = true
				res["how"] = "engine fails closed: " + err.Error()
				return
			}
			var ts []*fnTrans
			cfuncs, _ := propFuncs(e, prop)
			for _, fc := range cfuncs {
				if fc.Trusted {
					continue
				}
				t, err := e.translate(fc)
				if err != nil {
					res["detected"] = true
					res["how"] = "engine fails closed: " + err.Error()
					return
				}
				ts = append(ts, t)
			}
			if lt := e.lemmaTrans(prop); lt != nil {
				ts = append(ts, lt)
			}
			solveAll(ts, filepath.Join(scratch, ".out"), 25*time.Second, false, 16)
			var failed []string
			for _, t := range ts {
				for _, o := range t.obls {
					if o.Kind != "cover" && o.Result != "unsat" {
						failed = append(failed, o.Name+" ("+o.Result+")")
					}
				}
			}
			res["detected"] = len(failed) > 0
			if len(failed) > 3 {
				failed = append(failed[:3], fmt.Sprintf("... %d more", len(failed)-3))
			}
			res["failed_obligations"] = failed
		}()
		out = append(out, res)
	}
	return out
}
