package main

// Spec expression language: lexer, AST, Pratt parser.
//
//   e ::= lit | ident | e.f | e[i] | e[lo:hi] | f(args) | old(e) | !e | -e | *e
//       | e op e | c ? a : b | forall x T, y T :: {trig, ...} e | exists ...
//   ops (low → high):  <==>  ==>  ?:  ||  &&  == != < <= > >=  + - |  * / % & << >>

import (
	"fmt"
	"strings"
	"unicode"
)

type Expr interface{}

type (
	EIdent  struct{ Name string }
	EInt    struct{ Val string }
	EStr    struct{ Val string }
	EBool   struct{ Val bool }
	ENil    struct{}
	EUnary  struct {
		Op string
		X  Expr
	}
	EBinary struct {
		Op   string
		X, Y Expr
	}
	ESelect struct {
		X   Expr
		Sel string
	}
	EIndex struct{ X, I Expr }
	ESlice struct{ X, Lo, Hi Expr }
	ECall  struct {
		Fun  string
		Args []Expr
	}
	ECond  struct{ C, A, B Expr }
	QVar   struct{ Name, Type string }
	EQuant struct {
		Forall   bool
		Vars     []QVar
		Triggers [][]Expr
		Body     Expr
	}
)

type stok struct {
	kind string // "id", "int", "str", "op", "eof"
	val  string
}

func lexSpec(s string) ([]stok, error) {
	var toks []stok
	i := 0
	for i < len(s) {
		c := s[i]
		switch {
		case c == ' ' || c == '\t' || c == '\n' || c == '\r':
			i++
		case c == '/' && i+1 < len(s) && s[i+1] == '/':
			// trailing comment
			for i < len(s) && s[i] != '\n' {
				i++
			}
		case unicode.IsLetter(rune(c)) || c == '_' || c == '$':
			j := i
			for j < len(s) && (unicode.IsLetter(rune(s[j])) || unicode.IsDigit(rune(s[j])) || s[j] == '_' || s[j] == '$') {
				j++
			}
			toks = append(toks, stok{"id", s[i:j]})
			i = j
		case c >= '0' && c <= '9':
			j := i
			if c == '0' && j+1 < len(s) && (s[j+1] == 'x' || s[j+1] == 'X') {
				j += 2
				for j < len(s) && strings.ContainsRune("0123456789abcdefABCDEF_", rune(s[j])) {
					j++
				}
			} else {
				for j < len(s) && (s[j] >= '0' && s[j] <= '9' || s[j] == '_') {
					j++
				}
			}
			toks = append(toks, stok{"int", strings.ReplaceAll(s[i:j], "_", "")})
			i = j
		case c == '"':
			j := i + 1
			var b strings.Builder
			for j < len(s) && s[j] != '"' {
				if s[j] == '\\' && j+1 < len(s) {
					j++
					switch s[j] {
					case 'n':
						b.WriteByte('\n')
					case 't':
						b.WriteByte('\t')
					default:
						b.WriteByte(s[j])
					}
				} else {
					b.WriteByte(s[j])
				}
				j++
			}
			if j >= len(s) {
				return nil, fmt.Errorf("unterminated string literal")
			}
			toks = append(toks, stok{"str", b.String()})
			i = j + 1
		case c == '\'':
			// char literal 'x'
			if i+2 < len(s) && s[i+2] == '\'' {
				toks = append(toks, stok{"int", fmt.Sprint(int(s[i+1]))})
				i += 3
			} else if i+3 < len(s) && s[i+1] == '\\' && s[i+3] == '\'' {
				v := int(s[i+2])
				if s[i+2] == 'n' {
					v = 10
				}
				toks = append(toks, stok{"int", fmt.Sprint(v)})
				i += 4
			} else {
				return nil, fmt.Errorf("bad char literal")
			}
		default:
			ops := []string{"<==>", "==>", "::", "==", "!=", "<=", ">=", "&&", "||", "<<", ">>", "&^"}
			matched := false
			for _, op := range ops {
				if strings.HasPrefix(s[i:], op) {
					toks = append(toks, stok{"op", op})
					i += len(op)
					matched = true
					break
				}
			}
			if !matched {
				toks = append(toks, stok{"op", string(c)})
				i++
			}
		}
	}
	toks = append(toks, stok{"eof", ""})
	return toks, nil
}

type specParser struct {
	toks []stok
	pos  int
}

func parseSpec(src string) (e Expr, err error) {
	toks, err := lexSpec(src)
	if err != nil {
		return nil, err
	}
	p := &specParser{toks: toks}
	defer func() {
		if r := recover(); r != nil {
			if pe, ok := r.(parseErr); ok {
				err = fmt.Errorf("%s (in %q)", string(pe), src)
				return
			}
			panic(r)
		}
	}()
	e = p.expr(0)
	if p.peek().kind != "eof" {
		p.fail("unexpected %q", p.peek().val)
	}
	return e, nil
}

type parseErr string

func (p *specParser) fail(f string, a ...interface{}) { panic(parseErr(fmt.Sprintf(f, a...))) }
func (p *specParser) peek() stok                     { return p.toks[p.pos] }
func (p *specParser) next() stok                     { t := p.toks[p.pos]; p.pos++; return t }
func (p *specParser) isOp(v string) bool              { t := p.peek(); return t.kind == "op" && t.val == v }
func (p *specParser) expect(v string) {
	if !p.isOp(v) {
		p.fail("expected %q, found %q", v, p.peek().val)
	}
	p.pos++
}

var binPrec = map[string]int{
	"<==>": 1, "==>": 2, "||": 4, "&&": 5,
	"==": 6, "!=": 6, "<": 6, "<=": 6, ">": 6, ">=": 6,
	"+": 7, "-": 7, "|": 7, "^": 7,
	"*": 8, "/": 8, "%": 8, "&": 8, "<<": 8, ">>": 8, "&^": 8,
}

func (p *specParser) expr(minPrec int) Expr {
	lhs := p.unary()
	for {
		t := p.peek()
		if t.kind != "op" {
			return lhs
		}
		if t.val == "?" && minPrec <= 3 {
			p.next()
			a := p.expr(4)
			p.expect(":")
			b := p.expr(3)
			lhs = &ECond{lhs, a, b}
			continue
		}
		prec, ok := binPrec[t.val]
		if !ok || prec < minPrec {
			return lhs
		}
		p.next()
		var rhs Expr
		if t.val == "==>" {
			rhs = p.expr(prec) // right associative
		} else {
			rhs = p.expr(prec + 1)
		}
		lhs = &EBinary{t.val, lhs, rhs}
	}
}

func (p *specParser) unary() Expr {
	t := p.peek()
	if t.kind == "op" {
		switch t.val {
		case "!", "-", "*", "^", "&":
			p.next()
			return &EUnary{t.val, p.unary()}
		}
	}
	if t.kind == "id" && (t.val == "forall" || t.val == "exists") {
		return p.quant()
	}
	return p.postfix(p.primary())
}

func (p *specParser) quant() Expr {
	q := &EQuant{Forall: p.next().val == "forall"}
	for {
		name := p.next()
		if name.kind != "id" {
			p.fail("quantifier variable expected")
		}
		// type: tokens until ',' or '::'
		var ty strings.Builder
		for !p.isOp(",") && !p.isOp("::") {
			if p.peek().kind == "eof" {
				p.fail("quantifier: '::' expected")
			}
			ty.WriteString(p.next().val)
		}
		q.Vars = append(q.Vars, QVar{name.val, ty.String()})
		if p.isOp(",") {
			p.next()
			continue
		}
		break
	}
	p.expect("::")
	for p.isOp("{") {
		p.next()
		var trig []Expr
		for {
			trig = append(trig, p.expr(0))
			if p.isOp(",") {
				p.next()
				continue
			}
			break
		}
		p.expect("}")
		q.Triggers = append(q.Triggers, trig)
	}
	q.Body = p.expr(0)
	return q
}

func (p *specParser) primary() Expr {
	t := p.next()
	switch t.kind {
	case "int":
		return &EInt{t.val}
	case "str":
		return &EStr{t.val}
	case "id":
		switch t.val {
		case "true":
			return &EBool{true}
		case "false":
			return &EBool{false}
		case "nil":
			return &ENil{}
		}
		if p.isOp("(") {
			p.next()
			var args []Expr
			for !p.isOp(")") {
				args = append(args, p.expr(0))
				if p.isOp(",") {
					p.next()
				}
			}
			p.expect(")")
			return &ECall{t.val, args}
		}
		return &EIdent{t.val}
	case "op":
		if t.val == "(" {
			e := p.expr(0)
			p.expect(")")
			return e
		}
	}
	p.fail("unexpected %q", t.val)
	return nil
}

func (p *specParser) postfix(e Expr) Expr {
	for {
		switch {
		case p.isOp("."):
			p.next()
			id := p.next()
			if id.kind != "id" {
				p.fail("field name expected")
			}
			// qualified call pkg.Func(args) or method-like spec call
			if p.isOp("(") {
				if base, ok := e.(*EIdent); ok {
					p.next()
					var args []Expr
					for !p.isOp(")") {
						args = append(args, p.expr(0))
						if p.isOp(",") {
							p.next()
						}
					}
					p.expect(")")
					e = &ECall{base.Name + "." + id.val, args}
					continue
				}
			}
			e = &ESelect{e, id.val}
		case p.isOp("["):
			p.next()
			var lo Expr
			if !p.isOp(":") {
				lo = p.expr(0)
			}
			if p.isOp(":") {
				p.next()
				var hi Expr
				if !p.isOp("]") {
					hi = p.expr(0)
				}
				p.expect("]")
				e = &ESlice{e, lo, hi}
			} else {
				p.expect("]")
				e = &EIndex{e, lo}
			}
		default:
			return e
		}
	}
}
