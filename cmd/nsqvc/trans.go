package main

// Translation of one SSA function (naive form: locals are cells) into SMT constraints
// and proof obligations. Loops are cut at their headers by invariants; the remaining
// CFG is a DAG that is encoded block by block (reach predicates, versioned state).

import (
	"hash/fnv"
	"fmt"
	"go/constant"
	"go/token"
	"go/types"
	"sort"
	"strings"

	"golang.org/x/tools/go/ssa"
)

type StateVar struct {
	Free bool // free ghost: outside every frame
	Name string
	Sort string
	Heap bool       // havocked by opaque calls
	Typ  types.Type // type of the stored value (cell/global/ghost) or element (arrays)
	Kind string     // field, deref, elems, mapdom, mapval, maplen, cell, global, ghost, alloc, chan
}

type State struct{ m map[string]Term }

func (s *State) clone() *State {
	n := &State{m: make(map[string]Term, len(s.m))}
	for k, v := range s.m {
		n.m[k] = v
	}
	return n
}

type Sel struct {
	Field  int
	Struct *types.Struct
	SType  types.Type // the (possibly named) struct type
	Index  Term       // non-empty for array index
	Elem   types.Type // element type for index selectors
}

type Path struct {
	Cell   string // cell state var
	Global string // global state var
	Ref    Term   // heap reference root
	ArrOf  string // elems state var: the root is the array stored at E[Ref] (slice backing store, array object)
	Typ    types.Type // type of the root object
	Sels   []Sel
}

type Val struct {
	IfaceT types.Type // static type of the value boxed by MakeInterface (when known)
	IfaceV Term       // and its term
	IfaceP *Path      // the boxed value is the address of this location of the caller (e.g. heap.Push(&c.deferredPQ, x))
	T   Term
	P   *Path
	Tup []Val
	Fn  *ssa.Function // closure / function value when statically known
	Bnd []Val         // closure bindings
}

type constraint struct {
	block   int
	guarded bool
	text    string
}

type Obligation struct {
	Name   string // stable name: pkg.Func/kind[name]#site
	Fn     string
	Kind   string // safety, requires, ensures, invariant, frame, lock, assert, lemma, decreases
	Block  int
	NCons  int    // number of constraints of the function that precede it
	Cond   Term   // must hold when the block is reached
	Desc   string // human-readable clause / location
	Pos    string
	Props  []string
	Uses   []Term
	Bounded int
	// filled by the solver driver
	Confirmed int // number of solver runs that answered unsat
	Result   string
	Solver   string
	TimeMS   int64
	Model    string
	VCFile   string
	Outputs  map[string]string
	ModelVars map[string]string // SMT const -> description (inputs to report from the model)
}

type loopInfo struct {
	header  *ssa.BasicBlock
	ordinal int
	body    map[int]bool
	spec    *LoopSpec
}

type fnTrans struct {
	eng  *Engine
	fn   *ssa.Function
	fc   *FuncContract
	S    *Sorts
	name string // display name

	// fixpoint data
	vars       map[string]*StateVar
	varsGrew   bool
	loopMod    map[int]map[string]bool
	loopModAll map[int]bool
	modGrew    bool

	// per pass
	decls    []string
	declared map[string]bool
	cons     []constraint
	obls     []*Obligation
	vals     map[ssa.Value]Val
	outSt    map[int]*State
	reach    map[int]Term
	cur      *State
	blk      *ssa.BasicBlock
	nfresh   int
	loops    map[int]*loopInfo // by header index
	backEdge map[[2]int]bool
	order    []*ssa.BasicBlock
	preds    map[int][]int // DAG preds (no back edges)
	entrySt  *State
	params   map[string]Val
	paramTy  map[string]types.Type
	cells    []*ssa.Alloc
	cellName map[*ssa.Alloc]string
	siteN    map[string]int
	defers   []*ssa.Defer
	assumptions map[string]bool
	errs     []string
	decMeasure map[int]Term
	lockSnap map[string]bool
	inputs   map[string]string // model consts of interest → description

	usedImpl      map[string]types.Type
	rangeIters    map[*ssa.Range]string
	selects       []*ssa.Select
	usedExterns   map[string]bool
	usedBenign    map[string]bool
	opaqueCalls   map[string]bool
	usedContracts map[string]*FuncContract
	usedLocks     map[string]bool
	axiomTerms    []Term
	extraQueries  []string
	usedAxioms    map[string]bool
	optAxioms     map[string]Term
	inl           *inlineFrame
	inlSeq        int
	inlStack      []*ssa.Function
	seqViews      map[string]Term
	ghostParams   []bound
	usedImmut     map[string]bool
	usedChanInv   map[string]bool
	locPtrs       map[string]Term
	lockGhosts    map[string]bound
	callSeq       int
	allowed       map[string][]Term
	allowedAll    bool
	allowedDone   bool
	seqFacts      []Term
	curUses       []Term
	loopHeadSt    map[int]*State
	lockSites     map[string][2]string // (lock-mode variable, object) pairs this function locks or unlocks
	spawned       map[string]*FuncContract // contracts of the functions started with `go` in this function
	cellFn        map[string]cellFnRec // local cells that hold a statically known closure (assigned exactly once)
	stableFree    []stableCell             // captured variables that are never reassigned: survive havoc
	shadowed      map[string]*FuncContract // repository functions under contract that were called through a scoped extern
	dguard        Term                 // conditional defer being run: everything assumed / obliged holds when its defer statement was reached
}

func (t *fnTrans) errorf(f string, a ...interface{}) {
	t.errs = append(t.errs, fmt.Sprintf(f, a...))
}

func (t *fnTrans) fresh(prefix, sort string) Term {
	t.nfresh++
	n := fmt.Sprintf("%s_%d", sanitize(prefix), t.nfresh)
	t.declare(n, sort)
	return n
}

func (t *fnTrans) declare(name, sort string) {
	if t.declared[name] {
		return
	}
	t.declared[name] = true
	t.decls = append(t.decls, fmt.Sprintf("(declare-const %s %s)", name, sort))
}

func (t *fnTrans) assume(text Term) {
	if text == "true" || text == "" {
		return
	}
	if t.inl != nil {
		text = fmt.Sprintf("(=> %s %s)", t.inl.cur, text)
	}
	if t.dguard != "" {
		text = fmt.Sprintf("(=> %s %s)", t.dguard, text)
	}
	t.cons = append(t.cons, constraint{t.blk.Index, true, text})
}
func (t *fnTrans) define(text Term) {
	t.cons = append(t.cons, constraint{t.blk.Index, false, text})
}

func (t *fnTrans) posStr(p token.Pos) string {
	if !p.IsValid() {
		return ""
	}
	pp := t.eng.fset.Position(p)
	return fmt.Sprintf("%s:%d", strings.TrimPrefix(pp.Filename, t.eng.repo+"/"), pp.Line)
}

// oblige records an obligation at the current point and then assumes it.
func (t *fnTrans) oblige(kind, name, desc string, cond Term, pos token.Pos) {
	if cond == "true" {
		return
	}
	if t.dguard != "" {
		cond = fmt.Sprintf("(=> %s %s)", t.dguard, cond)
	}
	if t.inl != nil {
		// inside an inlined callee: the obligation holds when that callee block is reached
		cond = fmt.Sprintf("(=> %s %s)", t.inl.cur, cond)
		desc += " (in inlined " + t.inl.name + ")"
		t.siteN[kind+"["+name+"]"]++
		full := fmt.Sprintf("%s/%s[%s]#%d", t.name, kind, name, t.siteN[kind+"["+name+"]"])
		o := &Obligation{Name: full, Fn: t.name, Kind: kind, Block: t.blk.Index, NCons: len(t.cons), Cond: cond, Desc: desc, Pos: t.posStr(pos)}
		if t.fc != nil {
			o.Props = t.fc.Props
		}
		t.obls = append(t.obls, o)
		t.cons = append(t.cons, constraint{t.blk.Index, true, cond})
		return
	}
	key := kind
	if name != "" {
		key += "[" + name + "]"
	}
	t.siteN[key]++
	full := fmt.Sprintf("%s/%s", t.name, key)
	if n := t.siteN[key]; n > 1 || kind == "safety" || kind == "requires" {
		full = fmt.Sprintf("%s#%d", full, t.siteN[key])
	}
	o := &Obligation{Name: full, Fn: t.name, Kind: kind, Block: t.blk.Index, NCons: len(t.cons), Cond: cond, Desc: desc, Pos: t.posStr(pos)}
	if t.fc != nil {
		o.Props = t.fc.Props
	}
	o.Uses = t.curUses
	t.obls = append(t.obls, o)
	t.assume(cond)
}

// ---------- state variables ----------

func (t *fnTrans) stateVar(name, sort, kind string, heap bool, typ types.Type) *StateVar {
	if v, ok := t.vars[name]; ok {
		return v
	}
	v := &StateVar{Name: name, Sort: sort, Heap: heap, Typ: typ, Kind: kind}
	t.vars[name] = v
	t.varsGrew = true
	return v
}

func (t *fnTrans) get(st *State, name string) Term {
	if v, ok := st.m[name]; ok {
		return v
	}
	base := name
	prefix := ""
	if i := strings.LastIndex(name, ":"); i >= 0 {
		base, prefix = name[i+1:], name[:i]
	}
	sv := t.vars[base]
	if strings.HasPrefix(prefix, "call") {
		// lock-point snapshot of a CALLEE (atlock/atunlock in its ensures): an unknown intermediate state
		n := sanitize(prefix) + "_" + base
		if sv != nil {
			t.declare(n, sv.Sort)
		}
		return n
	}
	n0 := base + "_0"
	if sv != nil {
		t.declare(n0, sv.Sort)
	}
	return n0
}

func (t *fnTrans) set(name string, v Term) {
	// keep terms small: a large new value is bound to a fresh constant (otherwise every further
	// store re-embeds the whole previous term and sizes double per update)
	if len(v) > 400 {
		if sv := t.vars[name]; sv != nil {
			c := t.fresh(name+"_v", sv.Sort)
			t.define(fmt.Sprintf("(= %s %s)", c, v))
			v = c
		}
	}
	t.cur.m[name] = v
	t.noteWrite(name)
}

func (t *fnTrans) fieldVar(st types.Type, field int) *StateVar {
	s := st.Underlying().(*types.Struct)
	f := s.Field(field)
	name := "F_" + typeKey(st) + "_" + sanitize(f.Name())
	heap := true
	if n, ok := types.Unalias(st).(*types.Named); ok && n.Obj().Pkg() != nil {
		if t.eng.contracts.Immut[n.Obj().Pkg().Path()][n.Obj().Name()+"."+f.Name()] {
			// declared immutable after construction: never havocked; writes are checked by the package sweep
			heap = false
			t.usedImmut[n.Obj().Pkg().Path()+"."+n.Obj().Name()+"."+f.Name()] = true
		}
	}
	return t.stateVar(name, "(Array Int "+t.S.sortOf(f.Type())+")", "field", heap, f.Type())
}
func (t *fnTrans) derefVar(elem types.Type) *StateVar {
	return t.stateVar("D_"+typeKey(elem), "(Array Int "+t.S.sortOf(elem)+")", "deref", true, elem)
}
func (t *fnTrans) elemsVar(elem types.Type) *StateVar {
	return t.stateVar("E_"+typeKey(elem), "(Array Int (Array Int "+t.S.sortOf(elem)+"))", "elems", true, elem)
}
func (t *fnTrans) mapVars(mt *types.Map) (dom, val, ln *StateVar) {
	k := typeKey(mt)
	ks := t.S.sortOf(mt.Key())
	dom = t.stateVar("MD_"+k, "(Array Int (Array "+ks+" Bool))", "mapdom", true, mt.Key())
	val = t.stateVar("MV_"+k, "(Array Int (Array "+ks+" "+t.S.sortOf(mt.Elem())+"))", "mapval", true, mt.Elem())
	ln = t.stateVar("ML_"+k, "(Array Int Int)", "maplen", true, nil)
	return
}
func (t *fnTrans) globalVar(g *ssa.Global) *StateVar {
	et := g.Type().(*types.Pointer).Elem()
	name := "G_" + sanitize(g.Pkg.Pkg.Name()+"."+g.Name())
	heap := !t.immutableGlobal(g)
	return t.stateVar(name, t.S.sortOf(et), "global", heap, et)
}
func (t *fnTrans) immutableGlobal(g *ssa.Global) bool {
	et := g.Type().(*types.Pointer).Elem()
	if types.Identical(et, types.Universe.Lookup("error").Type()) {
		n := g.Name()
		return strings.HasPrefix(n, "err") || strings.HasPrefix(n, "Err")
	}
	// byte slices / regexps initialised once at package level and never reassigned in this code base
	return t.eng.roGlobals[g.Pkg.Pkg.Path()+"."+g.Name()]
}
func (t *fnTrans) allocVar() *StateVar { return t.stateVar("alloc", "Int", "alloc", false, nil) }
func (t *fnTrans) ghostVar(g *GhostVar, pkg *types.Package) *StateVar {
	ty := t.eng.resolveType(g.Type, pkg)
	if ty == nil {
		t.errorf("ghost %s: unknown type %s", g.Name, g.Type)
		ty = types.Typ[types.Int]
	}
	sv := t.stateVar("gh_"+sanitize(g.Name), t.S.sortOf(ty), "ghost", false, ty)
	sv.Free = g.Free
	return sv
}

// ---------- well-formedness of introduced values ----------

func (t *fnTrans) wf(v Term, ty types.Type) Term {
	ty = types.Unalias(ty)
	switch u := ty.Underlying().(type) {
	case *types.Basic:
		switch {
		case u.Info()&types.IsInteger != 0:
			return t.S.inRange(v, ty)
		case u.Info()&types.IsString != 0:
			return fmt.Sprintf("(and (>= (strlen %s) 0) (<= (strlen %s) 9223372036854775807) (= (= (strlen %s) 0) (= %s str_empty)))", v, v, v, v)
		}
		return "true"
	case *types.Pointer, *types.Map, *types.Chan, *types.Signature:
		return fmt.Sprintf("(and (<= 0 %s) (<= %s %s))", v, v, t.get(t.cur, "alloc"))
	case *types.Slice:
		return fmt.Sprintf("(and (<= 0 (soff %s)) (<= 0 (slen %s)) (<= (slen %s) (scap %s)) (<= 0 (sbase %s)) (<= (sbase %s) %s) (=> (= (sbase %s) 0) (= (scap %s) 0)) (<= (+ (soff %s) (scap %s)) 4611686018427387904))",
			v, v, v, v, v, v, t.get(t.cur, "alloc"), v, v, v, v)
	case *types.Interface:
		return fmt.Sprintf("(and (>= (ityp %s) 0) (=> (= (ityp %s) 0) (= (ival %s) 0)))", v, v, v)
	case *types.Struct:
		so := t.S.sortOf(ty)
		if strings.HasPrefix(so, "O_") {
			return "true"
		}
		var cs []string
		for i := 0; i < u.NumFields(); i++ {
			c := t.wf(fmt.Sprintf("(%s_%s %s)", so, sanitize(u.Field(i).Name()), v), u.Field(i).Type())
			if c != "true" {
				cs = append(cs, c)
			}
		}
		if len(cs) == 0 {
			return "true"
		}
		return "(and " + strings.Join(cs, " ") + ")"
	}
	return "true"
}

func (t *fnTrans) freshVal(prefix string, ty types.Type) Term {
	v := t.fresh(prefix, t.S.sortOf(ty))
	t.assume(t.wf(v, ty))
	return v
}

// ---------- integer operations in the two arithmetic modes ----------

func (t *fnTrans) wrap(x Term, ty types.Type) Term {
	if t.S.bv {
		return x
	}
	return fmt.Sprintf("(%s %s)", wrapFn(ty), x)
}

// strOrder: comparison of two strings through the uninterpreted strict total order str_lt.
func strOrder(op string, a, b Term) Term {
	switch op {
	case "<":
		return fmt.Sprintf("(str_lt %s %s)", a, b)
	case ">":
		return fmt.Sprintf("(str_lt %s %s)", b, a)
	case "<=":
		return fmt.Sprintf("(not (str_lt %s %s))", b, a)
	}
	return fmt.Sprintf("(not (str_lt %s %s))", a, b)
}

func pow2(k uint64) string {
	return constant.Shift(constant.MakeInt64(1), token.SHL, uint(k)).ExactString()
}

func (t *fnTrans) binop(op token.Token, x, y Term, xt, yt types.Type, yConst constant.Value, pos token.Pos) Term {
	switch {
	case isInt(xt) && !(op == token.EQL || op == token.NEQ || op == token.LSS || op == token.LEQ || op == token.GTR || op == token.GEQ):
		return t.intBinop(op, x, y, xt, yt, yConst, pos)
	case isInt(xt):
		return t.intCmp(op, x, y, xt)
	case isString(xt):
		switch op {
		case token.ADD:
			r := fmt.Sprintf("(str_cat %s %s)", x, y)
			t.assume(fmt.Sprintf("(= (strlen %s) (+ (strlen %s) (strlen %s)))", r, x, y))
			t.assume(t.wf(r, xt))
			return r
		case token.EQL:
			return fmt.Sprintf("(= %s %s)", x, y)
		case token.NEQ:
			return fmt.Sprintf("(not (= %s %s))", x, y)
		}
		// lexicographic order of strings: an uninterpreted strict total order (axioms added to the VCs that use it)
		switch op {
		case token.LSS:
			return strOrder("<", x, y)
		case token.LEQ:
			return strOrder("<=", x, y)
		case token.GTR:
			return strOrder(">", x, y)
		case token.GEQ:
			return strOrder(">=", x, y)
		}
		r := t.fresh("strcmp", "Bool")
		return r
	case isFloat(xt):
		switch op {
		case token.ADD:
			return fmt.Sprintf("(+ %s %s)", x, y)
		case token.SUB:
			return fmt.Sprintf("(- %s %s)", x, y)
		case token.MUL:
			return fmt.Sprintf("(* %s %s)", x, y)
		case token.QUO:
			return fmt.Sprintf("(/ %s %s)", x, y)
		case token.EQL:
			return fmt.Sprintf("(= %s %s)", x, y)
		case token.NEQ:
			return fmt.Sprintf("(not (= %s %s))", x, y)
		case token.LSS:
			return fmt.Sprintf("(< %s %s)", x, y)
		case token.LEQ:
			return fmt.Sprintf("(<= %s %s)", x, y)
		case token.GTR:
			return fmt.Sprintf("(> %s %s)", x, y)
		case token.GEQ:
			return fmt.Sprintf("(>= %s %s)", x, y)
		}
	case isBool(xt):
		switch op {
		case token.EQL:
			return fmt.Sprintf("(= %s %s)", x, y)
		case token.NEQ:
			return fmt.Sprintf("(not (= %s %s))", x, y)
		case token.LAND, token.AND:
			return fmt.Sprintf("(and %s %s)", x, y)
		case token.LOR, token.OR:
			return fmt.Sprintf("(or %s %s)", x, y)
		}
	default:
		// pointers, interfaces, slices(==nil), structs, arrays, chans, maps, funcs
		if _, ok := xt.Underlying().(*types.Slice); ok {
			// only comparison with nil is legal
			switch op {
			case token.EQL:
				return fmt.Sprintf("(= (sbase %s) 0)", x)
			case token.NEQ:
				return fmt.Sprintf("(not (= (sbase %s) 0))", x)
			}
		}
		switch op {
		case token.EQL:
			return fmt.Sprintf("(= %s %s)", x, y)
		case token.NEQ:
			return fmt.Sprintf("(not (= %s %s))", x, y)
		}
	}
	t.errorf("unsupported binop %s on %s", op, xt)
	return t.fresh("unsup", t.S.sortOf(xt))
}

func (t *fnTrans) intCmp(op token.Token, x, y Term, ty types.Type) Term {
	if t.S.bv {
		s := "s"
		if isUnsigned(ty) {
			s = "u"
		}
		switch op {
		case token.EQL:
			return fmt.Sprintf("(= %s %s)", x, y)
		case token.NEQ:
			return fmt.Sprintf("(not (= %s %s))", x, y)
		case token.LSS:
			return fmt.Sprintf("(bv%slt %s %s)", s, x, y)
		case token.LEQ:
			return fmt.Sprintf("(bv%sle %s %s)", s, x, y)
		case token.GTR:
			return fmt.Sprintf("(bv%sgt %s %s)", s, x, y)
		case token.GEQ:
			return fmt.Sprintf("(bv%sge %s %s)", s, x, y)
		}
	}
	m := map[token.Token]string{token.EQL: "=", token.LSS: "<", token.LEQ: "<=", token.GTR: ">", token.GEQ: ">="}
	if op == token.NEQ {
		return fmt.Sprintf("(not (= %s %s))", x, y)
	}
	return fmt.Sprintf("(%s %s %s)", m[op], x, y)
}

func (t *fnTrans) intBinop(op token.Token, x, y Term, ty, yt types.Type, yc constant.Value, pos token.Pos) Term {
	if t.S.bv {
		w := intWidth(ty)
		// shift counts may have another width
		if op == token.SHL || op == token.SHR {
			yw := intWidth(yt)
			if yw < w {
				y = fmt.Sprintf("((_ zero_extend %d) %s)", w-yw, y)
			} else if yw > w {
				// saturate: any count >= w behaves like w
				y = fmt.Sprintf("(ite (bvuge %s (_ bv%d %d)) (_ bv%d %d) ((_ extract %d 0) %s))", y, w, yw, w, w, w-1, y)
			}
		}
		signed := !isUnsigned(ty)
		switch op {
		case token.ADD:
			return fmt.Sprintf("(bvadd %s %s)", x, y)
		case token.SUB:
			return fmt.Sprintf("(bvsub %s %s)", x, y)
		case token.MUL:
			return fmt.Sprintf("(bvmul %s %s)", x, y)
		case token.QUO:
			t.oblige("safety", "div", "division by zero", fmt.Sprintf("(not (= %s (_ bv0 %d)))", y, w), pos)
			if signed {
				return fmt.Sprintf("(bvsdiv %s %s)", x, y)
			}
			return fmt.Sprintf("(bvudiv %s %s)", x, y)
		case token.REM:
			t.oblige("safety", "div", "division by zero", fmt.Sprintf("(not (= %s (_ bv0 %d)))", y, w), pos)
			if signed {
				return fmt.Sprintf("(bvsrem %s %s)", x, y)
			}
			return fmt.Sprintf("(bvurem %s %s)", x, y)
		case token.AND:
			return fmt.Sprintf("(bvand %s %s)", x, y)
		case token.OR:
			return fmt.Sprintf("(bvor %s %s)", x, y)
		case token.XOR:
			return fmt.Sprintf("(bvxor %s %s)", x, y)
		case token.AND_NOT:
			return fmt.Sprintf("(bvand %s (bvnot %s))", x, y)
		case token.SHL:
			return fmt.Sprintf("(bvshl %s %s)", x, y)
		case token.SHR:
			if signed {
				return fmt.Sprintf("(bvashr %s %s)", x, y)
			}
			return fmt.Sprintf("(bvlshr %s %s)", x, y)
		}
		t.errorf("unsupported bv op %s", op)
		return x
	}
	switch op {
	case token.ADD:
		return t.wrap(fmt.Sprintf("(+ %s %s)", x, y), ty)
	case token.SUB:
		return t.wrap(fmt.Sprintf("(- %s %s)", x, y), ty)
	case token.MUL:
		return t.wrap(fmt.Sprintf("(* %s %s)", x, y), ty)
	case token.QUO:
		t.oblige("safety", "div", "division by zero", fmt.Sprintf("(not (= %s 0))", y), pos)
		return t.wrap(fmt.Sprintf("(tdiv %s %s)", x, y), ty)
	case token.REM:
		t.oblige("safety", "div", "division by zero", fmt.Sprintf("(not (= %s 0))", y), pos)
		return fmt.Sprintf("(tmod %s %s)", x, y)
	case token.SHL, token.SHR:
		if yc != nil {
			if k, ok := constant.Uint64Val(yc); ok && k < 64 {
				if op == token.SHL {
					return t.wrap(fmt.Sprintf("(* %s %s)", x, pow2(k)), ty)
				}
				return fmt.Sprintf("(div %s %s)", x, pow2(k)) // floor division = arithmetic shift
			}
		}
	case token.AND:
		// x & (2^k - 1) = x mod 2^k (two's complement), for a constant mask
		if yc != nil {
			if m, ok := constant.Uint64Val(yc); ok && m+1 != 0 && (m&(m+1)) == 0 {
				return fmt.Sprintf("(mod %s %d)", x, m+1)
			}
		}
	}
	// bit operation not expressible in Int mode: result is an arbitrary value of the type
	t.assumptions["int-mode: result of "+op.String()+" at "+t.posStr(pos)+" treated as arbitrary value of its type"] = true
	return t.freshVal("bitop", ty)
}

func (t *fnTrans) convert(x Term, from, to types.Type) Term {
	from, to = types.Unalias(from), types.Unalias(to)
	switch {
	case isInt(from) && isInt(to):
		if t.S.bv {
			fw, tw := intWidth(from), intWidth(to)
			switch {
			case fw == tw:
				return x
			case fw > tw:
				return fmt.Sprintf("((_ extract %d 0) %s)", tw-1, x)
			case isUnsigned(from):
				return fmt.Sprintf("((_ zero_extend %d) %s)", tw-fw, x)
			default:
				return fmt.Sprintf("((_ sign_extend %d) %s)", tw-fw, x)
			}
		}
		flo, fhi := intBounds(from)
		tlo, thi := intBounds(to)
		if flo == tlo && fhi == thi {
			return x
		}
		// widening within same signedness needs no wrap; keep it simple and exact: wrap always
		return t.wrap(x, to)
	case isInt(from) && isFloat(to):
		if t.S.bv {
			return t.fresh("i2f", "Real")
		}
		return fmt.Sprintf("(to_real %s)", x)
	case isFloat(from) && isInt(to):
		if t.S.bv {
			return t.fresh("f2i", t.S.sortOf(to))
		}
		// truncation toward zero; out-of-range is implementation-defined: arbitrary in-range value then
		r := t.freshVal("f2i", to)
		lo, hi := intBounds(to)
		tr := fmt.Sprintf("(ite (>= %s 0.0) (to_int %s) (- (to_int (- %s))))", x, x, x)
		t.assume(fmt.Sprintf("(=> (and (<= %s %s) (<= %s %s)) (= %s %s))", lo, tr, tr, hi, r, tr))
		return r
	case isFloat(from) && isFloat(to):
		return x
	case isString(from) && isString(to):
		return x
	}
	if t.S.sortOf(from) == t.S.sortOf(to) {
		return x
	}
	return ""
}

// ---------- paths: loads and stores ----------

func (t *fnTrans) rootLoad(st *State, p *Path) (Term, types.Type, []Sel) {
	switch {
	case p.Cell != "":
		return t.get(st, p.Cell), p.Typ, p.Sels
	case p.Global != "":
		return t.get(st, p.Global), p.Typ, p.Sels
	case p.ArrOf != "":
		return fmt.Sprintf("(select %s %s)", t.get(st, p.ArrOf), p.Ref), p.Typ, p.Sels
	}
	if _, ok := p.Typ.Underlying().(*types.Struct); ok && !t.S.opaqueStruct(p.Typ) {
		if len(p.Sels) == 0 {
			// whole struct value assembled from its field arrays
			s := p.Typ.Underlying().(*types.Struct)
			so := t.S.sortOf(p.Typ)
			var fs []string
			for i := 0; i < s.NumFields(); i++ {
				fs = append(fs, fmt.Sprintf("(select %s %s)", t.get(st, t.fieldVar(p.Typ, i).Name), p.Ref))
			}
			if len(fs) == 0 {
				fs = []string{"0"}
			}
			return fmt.Sprintf("(mk_%s %s)", so, strings.Join(fs, " ")), p.Typ, nil
		}
		f := p.Sels[0]
		fv := t.fieldVar(p.Typ, f.Field)
		return sel(t.get(st, fv.Name), p.Ref), f.Struct.Field(f.Field).Type(), p.Sels[1:]
	}
	dv := t.derefVar(p.Typ)
	return sel(t.get(st, dv.Name), p.Ref), p.Typ, p.Sels
}

func (t *fnTrans) applySels(v Term, ty types.Type, sels []Sel) (Term, types.Type) {
	for _, s := range sels {
		if s.Index != "" {
			v = fmt.Sprintf("(select %s %s)", v, s.Index)
			ty = s.Elem
		} else {
			so := t.S.sortOf(s.SType)
			f := s.Struct.Field(s.Field)
			if strings.HasPrefix(so, "O_") {
				v = t.fresh("opaquefield", t.S.sortOf(f.Type()))
			} else {
				v = fmt.Sprintf("(%s_%s %s)", so, sanitize(f.Name()), v)
			}
			ty = f.Type()
		}
	}
	return v, ty
}

func (t *fnTrans) loadPath(st *State, p *Path) (Term, types.Type) {
	v, ty, sels := t.rootLoad(st, p)
	return t.applySels(v, ty, sels)
}

func (t *fnTrans) updSels(v Term, sels []Sel, x Term) Term {
	if len(sels) == 0 {
		return x
	}
	s := sels[0]
	if s.Index != "" {
		inner := t.updSels(fmt.Sprintf("(select %s %s)", v, s.Index), sels[1:], x)
		return fmt.Sprintf("(store %s %s %s)", v, s.Index, inner)
	}
	so := t.S.sortOf(s.SType)
	if strings.HasPrefix(so, "O_") {
		return t.fresh("opaqueupd", so)
	}
	var fs []string
	for i := 0; i < s.Struct.NumFields(); i++ {
		acc := fmt.Sprintf("(%s_%s %s)", so, sanitize(s.Struct.Field(i).Name()), v)
		if i == s.Field {
			fs = append(fs, t.updSels(acc, sels[1:], x))
		} else {
			fs = append(fs, acc)
		}
	}
	return fmt.Sprintf("(mk_%s %s)", so, strings.Join(fs, " "))
}

func (t *fnTrans) storePath(p *Path, x Term) {
	switch {
	case p.Cell != "":
		t.set(p.Cell, t.updSels(t.get(t.cur, p.Cell), p.Sels, x))
		return
	case p.Global != "":
		t.set(p.Global, t.updSels(t.get(t.cur, p.Global), p.Sels, x))
		return
	case p.ArrOf != "":
		arr := t.get(t.cur, p.ArrOf)
		inner := fmt.Sprintf("(select %s %s)", arr, p.Ref)
		t.set(p.ArrOf, fmt.Sprintf("(store %s %s %s)", arr, p.Ref, t.updSels(inner, p.Sels, x)))
		return
	}
	if s, ok := p.Typ.Underlying().(*types.Struct); ok && !t.S.opaqueStruct(p.Typ) {
		if len(p.Sels) == 0 {
			so := t.S.sortOf(p.Typ)
			for i := 0; i < s.NumFields(); i++ {
				fv := t.fieldVar(p.Typ, i)
				t.set(fv.Name, fmt.Sprintf("(store %s %s (%s_%s %s))", t.get(t.cur, fv.Name), p.Ref, so, sanitize(s.Field(i).Name()), x))
			}
			return
		}
		f := p.Sels[0]
		fv := t.fieldVar(p.Typ, f.Field)
		arr := t.get(t.cur, fv.Name)
		old := fmt.Sprintf("(select %s %s)", arr, p.Ref)
		t.set(fv.Name, fmt.Sprintf("(store %s %s %s)", arr, p.Ref, t.updSels(old, p.Sels[1:], x)))
		return
	}
	dv := t.derefVar(p.Typ)
	arr := t.get(t.cur, dv.Name)
	old := fmt.Sprintf("(select %s %s)", arr, p.Ref)
	t.set(dv.Name, fmt.Sprintf("(store %s %s %s)", arr, p.Ref, t.updSels(old, p.Sels, x)))
}

// pathOf turns a pointer-typed SSA value into a path.
func (t *fnTrans) pathOf(v ssa.Value) *Path {
	val := t.val(v)
	if val.P != nil {
		return val.P
	}
	pt, ok := v.Type().Underlying().(*types.Pointer)
	if !ok {
		t.errorf("pathOf non-pointer %s", v.Type())
		return &Path{Ref: val.T, Typ: v.Type()}
	}
	return &Path{Ref: val.T, Typ: pt.Elem()}
}

// term materialises a value as a first-class term.
func (t *fnTrans) term(v Val) Term {
	if v.P != nil {
		p := v.P
		if p.Ref != "" && p.ArrOf == "" && len(p.Sels) == 0 {
			return p.Ref
		}
		// address of a field of a heap object: a function of the object and the field
		if r := t.fieldAddrTerm(p); r != "" {
			t.assume(fmt.Sprintf("(> %s 0)", r))
			return r
		}
		// interior or local address escaping into a first-class value
		r := t.fresh("addr", "Int")
		t.assume(fmt.Sprintf("(> %s 0)", r))
		return r
	}
	return v.T
}

func (t *fnTrans) nilCheck(p *Path, pos token.Pos, what string) {
	if p.Ref != "" && p.ArrOf == "" {
		t.oblige("safety", "nil", "nil dereference: "+what, fmt.Sprintf("(not (= %s 0))", p.Ref), pos)
	}
}

// ---------- values ----------

func (t *fnTrans) constVal(c *ssa.Const) Val {
	ty := c.Type()
	if c.Value == nil {
		// zero value / nil
		return Val{T: t.S.zero(ty)}
	}
	switch {
	case isInt(ty):
		return Val{T: t.S.intLit(constant.ToInt(c.Value).ExactString(), ty)}
	case isBool(ty):
		if constant.BoolVal(c.Value) {
			return Val{T: "true"}
		}
		return Val{T: "false"}
	case isString(ty):
		return Val{T: t.S.strLit(constant.StringVal(c.Value))}
	case isFloat(ty):
		f, _ := constant.Float64Val(c.Value)
		s := fmt.Sprintf("%f", f)
		if f < 0 {
			s = fmt.Sprintf("(- %f)", -f)
		}
		return Val{T: s}
	}
	return Val{T: t.S.zero(ty)}
}

func (t *fnTrans) val(v ssa.Value) Val {
	switch v := v.(type) {
	case *ssa.Const:
		return t.constVal(v)
	case *ssa.Global:
		sv := t.globalVar(v)
		if t.immutableGlobal(v) && sv.Sort == "Iface" && !t.declared["nonnil:"+sv.Name] {
			t.declared["nonnil:"+sv.Name] = true
			t.declare(sv.Name+"_0", sv.Sort)
			t.cons = append(t.cons, constraint{0, false, fmt.Sprintf("(not (= (ityp %s_0) 0))", sv.Name)})
			t.assumptions["package-level error variable "+v.Name()+" is non-nil and never reassigned"] = true
		}
		return Val{P: &Path{Global: sv.Name, Typ: v.Type().(*types.Pointer).Elem()}}
	case *ssa.Function:
		return Val{T: t.funcRef(v), Fn: v}
	case *ssa.Builtin:
		return Val{T: "0"}
	}
	if r, ok := t.vals[v]; ok {
		return r
	}
	// parameters / free variables
	switch v := v.(type) {
	case *ssa.Parameter:
		if r, ok := t.params[v.Name()]; ok {
			return r
		}
	case *ssa.FreeVar:
		n := "fv_" + sanitize(v.Name())
		t.declare(n, "Int")
		r := Val{T: n}
		t.vals[v] = r
		return r
	}
	t.errorf("value %s (%T) used before definition", v.Name(), v)
	r := Val{T: t.fresh("undef", t.S.sortOf(v.Type()))}
	t.vals[v] = r
	return r
}

func (t *fnTrans) funcRef(f *ssa.Function) Term {
	n := "fn_" + sanitize(f.String())
	if !t.declared[n] {
		t.declare(n, "Int")
		t.cons = append(t.cons, constraint{0, false, fmt.Sprintf("(> %s 0)", n)})
		// the name of the function behind the value (spec builtin fnname(), also when the value travels through a slice or a field)
		t.cons = append(t.cons, constraint{0, false, fmt.Sprintf("(= (fnname_of %s) %s)", n, t.S.strLit(strings.TrimSuffix(f.String(), "$bound")))})
	}
	return n
}

func (t *fnTrans) setVal(v ssa.Value, r Val) { t.vals[v] = r }

// defineReg binds an SSA register to a named const equal to term (keeps VCs readable and small).
func (t *fnTrans) defineReg(v ssa.Value, term Term) Val {
	if !strings.ContainsAny(term, " (") {
		// atomic term (literal or existing symbol): alias, no new constant
		r := Val{T: term}
		t.vals[v] = r
		return r
	}
	n := "v_" + sanitize(v.Name())
	if t.inl != nil {
		n = "v_" + t.inl.prefix + sanitize(v.Name())
	}
	t.declare(n, t.S.sortOf(v.Type()))
	t.define(fmt.Sprintf("(= %s %s)", n, term))
	r := Val{T: n}
	t.vals[v] = r
	return r
}

// ---------- CFG analysis ----------

func (t *fnTrans) analyzeCFG() {
	fn := t.fn
	t.backEdge = map[[2]int]bool{}
	t.loops = map[int]*loopInfo{}
	t.preds = map[int][]int{}
	for _, b := range fn.Blocks {
		for _, s := range b.Succs {
			if s.Dominates(b) {
				t.backEdge[[2]int{b.Index, s.Index}] = true
				li := t.loops[s.Index]
				if li == nil {
					li = &loopInfo{header: s, body: map[int]bool{s.Index: true}}
					t.loops[s.Index] = li
				}
				// natural loop: nodes reaching b without passing through s
				stack := []*ssa.BasicBlock{b}
				for len(stack) > 0 {
					x := stack[len(stack)-1]
					stack = stack[:len(stack)-1]
					if li.body[x.Index] {
						continue
					}
					li.body[x.Index] = true
					for _, p := range x.Preds {
						stack = append(stack, p)
					}
				}
			}
		}
	}
	var hs []int
	for h := range t.loops {
		hs = append(hs, h)
	}
	// source order: position of the loop's first positioned instruction; fall back to block index
	sort.Slice(hs, func(i, j int) bool {
		// ties (a labelled loop and the range loop that starts at the same position): deterministic, by header block index
		if pi, pj := t.loopPos(hs[i]), t.loopPos(hs[j]); pi != pj {
			return pi < pj
		}
		return hs[i] < hs[j]
	})
	for i, h := range hs {
		t.loops[h].ordinal = i
		if t.fc != nil {
			t.loops[h].spec = t.fc.Loops[i]
		}
	}
	// topological order of the DAG without back edges (reverse postorder)
	seen := map[int]bool{}
	var post []*ssa.BasicBlock
	var dfs func(b *ssa.BasicBlock)
	dfs = func(b *ssa.BasicBlock) {
		seen[b.Index] = true
		for _, s := range b.Succs {
			if t.backEdge[[2]int{b.Index, s.Index}] || seen[s.Index] {
				continue
			}
			dfs(s)
		}
		post = append(post, b)
	}
	if len(fn.Blocks) > 0 {
		dfs(fn.Blocks[0])
	}
	t.order = nil
	for i := len(post) - 1; i >= 0; i-- {
		t.order = append(t.order, post[i])
	}
	for _, b := range t.order {
		for _, s := range b.Succs {
			if !t.backEdge[[2]int{b.Index, s.Index}] {
				t.preds[s.Index] = append(t.preds[s.Index], b.Index)
			}
		}
	}
}

func (t *fnTrans) loopPos(h int) int {
	li := t.loops[h]
	best := int(^uint(0) >> 1)
	for bi := range li.body {
		for _, in := range t.fn.Blocks[bi].Instrs {
			if p := in.Pos(); p.IsValid() && int(p) < best {
				best = int(p)
			}
		}
	}
	return best
}

func sortedLoopHeads(m map[int]*loopInfo) []int {
	var hs []int
	for h := range m {
		hs = append(hs, h)
	}
	sort.Ints(hs)
	return hs
}

// ancestors of block b in the DAG (including b).
func (t *fnTrans) ancestors(b int) map[int]bool {
	anc := map[int]bool{}
	var walk func(x int)
	walk = func(x int) {
		if anc[x] {
			return
		}
		anc[x] = true
		for _, p := range t.preds[x] {
			walk(p)
		}
	}
	walk(b)
	return anc
}

// ---------- spec environments ----------

func (t *fnTrans) cellByName(name string, at *ssa.BasicBlock) (*ssa.Alloc, bool) {
	var best *ssa.Alloc
	for _, a := range t.cells {
		if a.Comment != name {
			continue
		}
		if at != nil && !a.Block().Dominates(at) {
			continue
		}
		if best == nil || best.Block().Dominates(a.Block()) {
			best = a
		}
	}
	return best, best != nil
}

func (t *fnTrans) entryEnv(st *State) *Env {
	e := &Env{t: t, st: st, old: t.entrySt, vars: map[string]bound{}, prm: map[string]bound{}}
	for n, v := range t.params {
		e.prm[n] = bound{v, t.paramTy[n]}
	}
	e.pkg = t.fn.Pkg.Pkg
	return e
}

// localEnv: names resolve to parameters' entry values unless shadowed by a live local cell.
func (t *fnTrans) localEnv(st *State, at *ssa.BasicBlock) *Env {
	e := t.entryEnv(st)
	e.at = at
	e.local = func(name string) (Val, types.Type, bool) {
		a, ok := t.cellByName(name, at)
		if !ok {
			return Val{}, nil, false
		}
		ty := a.Type().(*types.Pointer).Elem()
		if a.Heap {
			p := &Path{Ref: t.vals[a].T, Typ: ty}
			if t.vals[a].P != nil {
				p = t.vals[a].P
			}
			v, _ := t.loadPath(st, p)
			return Val{T: v}, ty, true
		}
		return Val{T: t.get(st, t.cellName[a])}, ty, true
	}
	return e
}

// ---------- main translation ----------

func (t *fnTrans) run() {
	for pass := 0; pass < 12; pass++ {
		t.varsGrew, t.modGrew = false, false
		t.pass()
		if !t.varsGrew && !t.modGrew {
			return
		}
	}
	t.errorf("state-variable fixpoint did not converge")
}

func (t *fnTrans) pass() {
	t.decls, t.cons, t.obls = nil, nil, nil
	t.declared = map[string]bool{}
	t.vals = map[ssa.Value]Val{}
	t.outSt = map[int]*State{}
	t.reach = map[int]Term{}
	t.nfresh = 0
	t.siteN = map[string]int{}
	t.defers = nil
	t.errs = nil
	t.assumptions = map[string]bool{}
	t.cellName = map[*ssa.Alloc]string{}
	t.cells = nil
	t.decMeasure = map[int]Term{}
	t.inputs = map[string]string{}
	t.usedImpl = map[string]types.Type{}
	t.rangeIters = map[*ssa.Range]string{}
	t.selects = nil
	t.usedExterns, t.usedBenign, t.opaqueCalls = map[string]bool{}, map[string]bool{}, map[string]bool{}
	t.usedContracts, t.usedLocks = map[string]*FuncContract{}, map[string]bool{}
	if t.usedImmut == nil {
		t.usedImmut = map[string]bool{}
	}
	if t.usedChanInv == nil {
		t.usedChanInv = map[string]bool{}
	}
	t.axiomTerms, t.extraQueries, t.usedAxioms, t.optAxioms = nil, nil, nil, map[string]Term{}
	t.seqViews, t.seqFacts = nil, nil
	t.locPtrs = nil
	t.lockGhosts = nil
	t.inl, t.inlSeq, t.inlStack = nil, 0, nil
	t.callSeq = 0
	t.cellFn = nil
	t.spawned = nil
	t.shadowed = nil
	t.stableFree = nil
	t.lockSites = nil
	t.loopHeadSt = nil
	t.allowedDone, t.allowed, t.allowedAll = false, nil, false
	t.S.decls, t.S.declared, t.S.axioms = nil, map[string]bool{}, nil
	t.S.strLits, t.S.strOrder = map[string]string{}, nil
	fn := t.fn
	t.allocVar()
	for _, v := range sortedKeys(t.vars) {
		t.declare(v+"_0", t.vars[v].Sort)
	}
	t.analyzeCFG()
	for _, b := range fn.Blocks {
		for _, in := range b.Instrs {
			if a, ok := in.(*ssa.Alloc); ok {
				t.cells = append(t.cells, a)
				t.cellName[a] = fmt.Sprintf("C_%s_%s", sanitize(a.Comment), sanitize(a.Name()))
			}
		}
	}
	// entry state and parameters
	t.entrySt = &State{m: map[string]Term{}}
	t.cur = t.entrySt.clone()
	t.blk = fn.Blocks[0]
	t.params, t.paramTy = map[string]Val{}, map[string]types.Type{}
	t.define(fmt.Sprintf("(>= %s 0)", t.get(t.cur, "alloc")))
	names := t.contractParamNames()
	for i, p := range fn.Params {
		n := "p_" + sanitize(p.Name())
		t.declare(n, t.S.sortOf(p.Type()))
		t.define(t.wf(n, p.Type()))
		v := Val{T: n}
		t.params[p.Name()] = v
		t.paramTy[p.Name()] = p.Type()
		if i < len(names) && names[i] != "" && names[i] != "_" {
			t.params[names[i]] = v
			t.paramTy[names[i]] = p.Type()
		}
		t.inputs[n] = "parameter " + p.Name() + " " + p.Type().String()
	}
	t.ghostParams = nil
	if t.fc != nil {
		for _, g := range t.fc.Ghosts {
			ty := t.eng.resolveType(g.Type, fn.Pkg.Pkg)
			if ty == nil {
				t.errorf("ghostparam %s: unknown type %s", g.Name, g.Type)
				continue
			}
			n := "gp_" + sanitize(g.Name)
			t.declare(n, t.S.sortOf(ty))
			t.define(t.wf(n, ty))
			t.params[g.Name] = Val{T: n}
			t.paramTy[g.Name] = ty
			t.ghostParams = append(t.ghostParams, bound{Val{T: n}, ty})
		}
	}
	for _, fv := range fn.FreeVars {
		// free variables are pointers to captured variables
		n := "fv_" + sanitize(fv.Name())
		t.declare(n, "Int")
		t.define(fmt.Sprintf("(and (< 0 %s) (<= %s %s))", n, n, t.get(t.cur, "alloc")))
		t.vals[fv] = Val{T: n}
		t.params[fv.Name()] = Val{P: &Path{Ref: n, Typ: fv.Type().(*types.Pointer).Elem()}}
		t.paramTy[fv.Name()] = fv.Type().(*types.Pointer).Elem()
		if capturedNeverReassigned(fn, fv) {
			// a captured variable nobody assigns after its declaration (a captured receiver or parameter, `fl := ...` declared once)
			// keeps its value across calls without a frame
			t.stableFree = append(t.stableFree, stableCell{n, fv.Type().(*types.Pointer).Elem()})
		}
	}
	// preconditions
	if t.fc != nil {
		env := t.entryEnv(t.cur)
		for _, c := range t.fc.Requires {
			t.assume(env.boolOf(c.Expr))
		}
		t.useAxioms(env, "", t.fn.Pkg.Pkg)
	}
	for _, b := range t.order {
		t.block(b)
	}
}

func (t *fnTrans) contractParamNames() []string {
	if t.fc == nil {
		return nil
	}
	var names []string
	if t.fn.Signature.Recv() != nil {
		names = append(names, t.fc.RecvName)
	}
	return append(names, t.fc.Params...)
}

func (t *fnTrans) edgeCond(p *ssa.BasicBlock, succIdx int) Term {
	r := t.reach[p.Index]
	if ifi, ok := p.Instrs[len(p.Instrs)-1].(*ssa.If); ok {
		c := t.term(t.val(ifi.Cond))
		if p.Succs[0] == p.Succs[1] {
			return r
		}
		if succIdx == 0 {
			return fmt.Sprintf("(and %s %s)", r, c)
		}
		return fmt.Sprintf("(and %s (not %s))", r, c)
	}
	return r
}

func succIndex(p, b *ssa.BasicBlock) []int {
	var r []int
	for i, s := range p.Succs {
		if s == b {
			r = append(r, i)
		}
	}
	return r
}

func (t *fnTrans) block(b *ssa.BasicBlock) {
	t.blk = b
	rn := fmt.Sprintf("reach_%d", b.Index)
	t.declare(rn, "Bool")
	t.reach[b.Index] = rn
	li := t.loops[b.Index]
	if b.Index == 0 {
		t.define(rn)
	} else {
		var edges []Term
		type inc struct {
			cond Term
			st   *State
			pred *ssa.BasicBlock
		}
		var incs []inc
		for _, pi := range t.preds[b.Index] {
			p := t.fn.Blocks[pi]
			for _, si := range succIndex(p, b) {
				en := fmt.Sprintf("edge_%d_%d_%d", pi, b.Index, si)
				t.declare(en, "Bool")
				t.define(fmt.Sprintf("(= %s %s)", en, t.edgeCond(p, si)))
				edges = append(edges, en)
				incs = append(incs, inc{en, t.outSt[pi], p})
			}
		}
		if len(edges) == 0 {
			t.define(fmt.Sprintf("(= %s false)", rn))
		} else if len(edges) == 1 {
			t.define(fmt.Sprintf("(= %s %s)", rn, edges[0]))
		} else {
			t.define(fmt.Sprintf("(= %s (or %s))", rn, strings.Join(edges, " ")))
		}
		// merge states
		st := &State{m: map[string]Term{}}
		keys := map[string]bool{}
		for _, ic := range incs {
			for k := range ic.st.m {
				keys[k] = true
			}
		}
		var ks []string
		for k := range keys {
			ks = append(ks, k)
		}
		sort.Strings(ks)
		for _, k := range ks {
			same := true
			first := t.get(incs[0].st, k)
			for _, ic := range incs[1:] {
				if t.get(ic.st, k) != first {
					same = false
				}
			}
			if same {
				st.m[k] = first
				continue
			}
			base := k
			if i := strings.LastIndex(k, ":"); i >= 0 {
				base = k[i+1:]
			}
			sv := t.vars[base]
			if sv == nil {
				continue
			}
			mv := fmt.Sprintf("%s_b%d", sanitize(k), b.Index)
			t.declare(mv, sv.Sort)
			for _, ic := range incs {
				t.define(fmt.Sprintf("(=> %s (= %s %s))", ic.cond, mv, t.get(ic.st, k)))
			}
			st.m[k] = mv
		}
		t.cur = st
		// phis
		for _, in := range b.Instrs {
			phi, ok := in.(*ssa.Phi)
			if !ok {
				break
			}
			n := "v_" + sanitize(phi.Name())
			t.declare(n, t.S.sortOf(phi.Type()))
			for i, p := range b.Preds {
				if t.backEdge[[2]int{p.Index, b.Index}] {
					continue
				}
				for _, si := range succIndex(p, b) {
					en := fmt.Sprintf("edge_%d_%d_%d", p.Index, b.Index, si)
					if t.declared[en] {
						t.define(fmt.Sprintf("(=> %s (= %s %s))", en, n, t.term(t.val(phi.Edges[i]))))
					}
				}
			}
			t.vals[phi] = Val{T: n}
		}
	}
	if li != nil {
		t.loopHead(li)
	}
	for _, in := range b.Instrs {
		if _, ok := in.(*ssa.Phi); ok {
			continue
		}
		t.instr(in)
	}
	t.outSt[b.Index] = t.cur
	// loop obligations on outgoing edges into loop headers
	for si, s := range b.Succs {
		if l2 := t.loops[s.Index]; l2 != nil {
			t.loopEdge(b, si, l2, t.backEdge[[2]int{b.Index, s.Index}])
		}
	}
	// `exit` clauses: obligations on every edge that leaves a loop (exhaustion, break, goto out of it)
	for si, s := range b.Succs {
		for _, h := range sortedLoopHeads(t.loops) {
			li := t.loops[h]
			if li.spec == nil || len(li.spec.Exits) == 0 || !li.body[b.Index] || li.body[s.Index] {
				continue
			}
			cond := t.edgeCondLocal(b, si)
			env := t.localEnv(t.cur, b)
			env.loopOf = li
			for i, c := range li.spec.Exits {
				nm := c.Name
				if nm == "" {
					nm = fmt.Sprint(i)
				}
				t.curUses = t.evalUses(c.Uses, env)
				t.oblige("invariant", fmt.Sprintf("loop%d.exit.%s", li.ordinal, nm), c.Src, fmt.Sprintf("(=> %s %s)", cond, env.boolOf(c.Expr)), b.Instrs[len(b.Instrs)-1].Pos())
			}
			t.curUses = nil
		}
	}
}

// loopEdge: invariant obligations when control enters (or re-enters) a loop header from b.
func (t *fnTrans) loopEdge(b *ssa.BasicBlock, si int, li *loopInfo, back bool) {
	cond := t.edgeCondLocal(b, si)
	for _, a := range t.cells {
		if a.Comment == "rangeindex" && !a.Heap && t.loopMod[li.header.Index][t.cellName[a]] && a.Block().Dominates(li.header) {
			t.oblige("invariant", fmt.Sprintf("loop%d.rangeindex", li.ordinal), "range counter within [-1, 2^62]", fmt.Sprintf("(=> %s (and (<= (- 1) %s) (<= %s 4611686018427387904)))", cond, t.toInt(t.get(t.cur, t.cellName[a]), tInt), t.toInt(t.get(t.cur, t.cellName[a]), tInt)), b.Instrs[len(b.Instrs)-1].Pos())
		}
	}
	if back {
		// every iteration leaves the lock modes as it found them (locks taken in the body are released in the body)
		if hs := t.loopHeadSt[li.header.Index]; hs != nil {
			for _, k := range sortedKeys(t.lockSites) {
				ls := t.lockSites[k]
				cur, was := t.get(t.cur, ls[0]), t.get(hs, ls[0])
				if cur != was {
					t.oblige("lockdisc", fmt.Sprintf("loop%d.balance.%s", li.ordinal, strings.TrimPrefix(ls[0], "LK_")), "an iteration releases the locks it takes ("+strings.TrimPrefix(ls[0], "LK_")+")",
						fmt.Sprintf("(=> %s (= (select %s %s) (select %s %s)))", cond, cur, ls[1], was, ls[1]), b.Instrs[len(b.Instrs)-1].Pos())
				}
			}
		}
		h := li.header.Index
		for _, name := range sortedKeys(t.vars) {
			if t.loopMod[h][name] || (t.loopModAll[h] && t.vars[name].Heap) {
				if c := t.frameCond(name, t.cur); c != "" {
					t.oblige("invariant", fmt.Sprintf("loop%d.frame.%s", li.ordinal, name), "frame of the function holds after each iteration ("+name+")", fmt.Sprintf("(=> %s %s)", cond, c), b.Instrs[len(b.Instrs)-1].Pos())
				}
			}
		}
	}
	if li.spec == nil {
		return
	}
	env := t.localEnv(t.cur, li.header)
	which := "entry"
	if back {
		which = "preserved"
	}
	for i, c := range li.spec.Invariants {
		nm := c.Name
		if nm == "" {
			nm = fmt.Sprint(i)
		}
		inv := env.boolOf(c.Expr)
		t.curUses = t.evalUses(c.Uses, env)
		t.oblige("invariant", fmt.Sprintf("loop%d.%s.%s", li.ordinal, nm, which), c.Src, fmt.Sprintf("(=> %s %s)", cond, inv), b.Instrs[len(b.Instrs)-1].Pos())
	}
	t.curUses = nil
	if back {
		// `backedge` clauses: checked when control returns to the head, never assumed there
		for i, c := range li.spec.BackEdges {
			nm := c.Name
			if nm == "" {
				nm = fmt.Sprint(i)
			}
			t.curUses = t.evalUses(c.Uses, env)
			t.oblige("invariant", fmt.Sprintf("loop%d.backedge.%s", li.ordinal, nm), c.Src, fmt.Sprintf("(=> %s %s)", cond, env.boolOf(c.Expr)), b.Instrs[len(b.Instrs)-1].Pos())
		}
		t.curUses = nil
	}
	if back && li.spec.Decreases != nil {
		m1, _ := env.eval(li.spec.Decreases.Expr)
		m0 := t.decMeasure[li.header.Index]
		if m0 != "" {
			t.oblige("decreases", fmt.Sprintf("loop%d", li.ordinal), li.spec.Decreases.Src,
				fmt.Sprintf("(=> %s (and (>= %s 0) (< %s %s)))", cond, m0, m1.T, m0), b.Instrs[len(b.Instrs)-1].Pos())
		}
	}
}

// edgeCondLocal: the branch condition alone (reach of the block is implied at the obligation).
func (t *fnTrans) edgeCondLocal(p *ssa.BasicBlock, succIdx int) Term {
	if ifi, ok := p.Instrs[len(p.Instrs)-1].(*ssa.If); ok && p.Succs[0] != p.Succs[1] {
		c := t.term(t.val(ifi.Cond))
		if succIdx == 0 {
			return c
		}
		return fmt.Sprintf("(not %s)", c)
	}
	return "true"
}

func (t *fnTrans) loopHead(li *loopInfo) {
	h := li.header.Index
	if t.loopMod[h] == nil {
		t.loopMod[h] = map[string]bool{}
	}
	// snapshot of the state in which the loop is entered (atloop(e) in invariants)
	for name := range t.vars {
		t.cur.m[fmt.Sprintf("atloop%d:%s", li.ordinal, name)] = t.get(t.cur, name)
	}
	// havoc what the loop body may modify (from the previous pass; fixpoint)
	mods := t.loopMod[h]
	all := t.loopModAll[h]
	// the allocation counter first: well-formedness of the other havocked values (references, slice
	// bases) is relative to the NEW counter (earlier iterations may have allocated)
	names := append([]string{"alloc"}, sortedKeys(t.vars)...)
	doneAlloc := false
	for _, name := range names {
		if name == "alloc" {
			if doneAlloc {
				continue
			}
			doneAlloc = true
		}
		sv := t.vars[name]
		if sv == nil {
			continue
		}
		if sv.Kind == "lockmode" {
			continue // lock modes are loop-invariant by obligation (checked on every back edge below), never havocked
		}
		if mods[name] || (all && (sv.Heap || sv.Kind == "ghost")) || (all && name == "alloc") {
			nv := fmt.Sprintf("%s_h%d", name, h)
			t.declare(nv, sv.Sort)
			if name == "alloc" {
				t.assume(fmt.Sprintf("(>= %s %s)", nv, t.get(t.cur, "alloc")))
			}
			t.cur.m[name] = nv
			if sv.Kind == "cell" || sv.Kind == "ghost" || sv.Kind == "global" {
				if sv.Typ != nil {
					t.assume(t.wf(nv, sv.Typ))
				}
			}
		}
	}
	// the function's frame is an implicit invariant of every loop (checked on each edge into the header)
	for _, name := range sortedKeys(t.vars) {
		if mods[name] || (all && t.vars[name].Heap) {
			if c := t.frameCond(name, t.cur); c != "" {
				t.assume(c)
			}
		}
	}
	// range-over-slice counters start at -1 and only ever grow by one (checked on each edge)
	for _, a := range t.cells {
		if a.Comment == "rangeindex" && !a.Heap && mods[t.cellName[a]] {
			ix := t.toInt(t.get(t.cur, t.cellName[a]), tInt)
			t.assume(fmt.Sprintf("(and (<= (- 1) %s) (<= %s 4611686018427387904))", ix, ix))
		}
	}
	// phis at loop headers are fresh
	for _, in := range li.header.Instrs {
		if phi, ok := in.(*ssa.Phi); ok {
			t.assume(t.wf(t.vals[phi].T, phi.Type()))
		}
	}
	if t.loopHeadSt == nil {
		t.loopHeadSt = map[int]*State{}
	}
	t.loopHeadSt[h] = t.cur.clone()
	if li.spec != nil {
		env := t.localEnv(t.cur, li.header)
		for _, c := range li.spec.Invariants {
			t.assume(env.boolOf(c.Expr))
		}
		for _, c := range li.spec.Assumes {
			t.assume(env.boolOf(c.Expr))
			t.assumptions[fmt.Sprintf("loop %d: assumed at the loop head, not checked: %s", li.ordinal, c.Src)] = true
		}
		t.cover(fmt.Sprintf("loop%d", li.ordinal))
		if li.spec.Decreases != nil {
			m, _ := env.eval(li.spec.Decreases.Expr)
			mn := t.fresh("measure", "Int")
			t.define(fmt.Sprintf("(= %s %s)", mn, m.T))
			t.decMeasure[h] = mn
		}
	}
}

// recordLoopMods: after a pass, compute per-loop modification sets from per-block writes.
func (t *fnTrans) noteWrite(name string) {
	bi := t.blk.Index
	for h, li := range t.loops {
		if li.body[bi] {
			if name == "*" {
				if !t.loopModAll[h] {
					t.loopModAll[h] = true
					t.modGrew = true
				}
				continue
			}
			if t.loopMod[h] == nil {
				t.loopMod[h] = map[string]bool{}
			}
			if !t.loopMod[h][name] {
				t.loopMod[h][name] = true
				t.modGrew = true
			}
		}
	}
}

func (t *fnTrans) setVar(name string, v Term) {
	t.cur.m[name] = v
	t.noteWrite(name)
}

type stableCell struct {
	ref Term
	typ types.Type
}

// capturedNeverReassigned: the variable behind the free variable fv of the function literal fn is stored to exactly once in the enclosing
// function (its declaration / the copy of a parameter) and by no function literal of that function.
func capturedNeverReassigned(fn *ssa.Function, fv *ssa.FreeVar) bool {
	parent := fn.Parent()
	if parent == nil {
		return false
	}
	idx := -1
	for i, f := range fn.FreeVars {
		if f == fv {
			idx = i
		}
	}
	var cell *ssa.Alloc
	n := 0
	for _, b := range parent.Blocks {
		for _, in := range b.Instrs {
			if mc, ok := in.(*ssa.MakeClosure); ok && mc.Fn == fn && idx >= 0 && idx < len(mc.Bindings) {
				a, ok := mc.Bindings[idx].(*ssa.Alloc)
				if !ok || (cell != nil && cell != a) {
					return false
				}
				cell = a
				n++
			}
		}
	}
	if cell == nil || cell.Referrers() == nil {
		return false
	}
	stores := 0
	for _, r := range *cell.Referrers() {
		switch x := r.(type) {
		case *ssa.Store:
			if x.Addr != ssa.Value(cell) {
				return false
			}
			stores++
		case *ssa.MakeClosure, *ssa.UnOp, *ssa.DebugRef:
		default:
			return false // its address goes somewhere else
		}
	}
	if stores > 1 {
		return false
	}
	var lits []*ssa.Function
	var collect func(f *ssa.Function)
	collect = func(f *ssa.Function) {
		for _, a := range f.AnonFuncs {
			lits = append(lits, a)
			collect(a)
		}
	}
	collect(parent)
	for _, af := range lits {
		for _, b := range af.Blocks {
			for _, in := range b.Instrs {
				if st, ok := in.(*ssa.Store); ok {
					if f, ok := st.Addr.(*ssa.FreeVar); ok && f.Name() == fv.Name() {
						return false
					}
				}
			}
		}
	}
	return true
}

// havocAll: an opaque call may change every heap location, global and ghost.
func (t *fnTrans) havocAll(why string) {
	defer func() {
		for _, sc := range t.stableFree {
			sv := t.derefVar(sc.typ)
			t.assume(fmt.Sprintf("(= (select %s %s) (select %s %s))", t.get(t.cur, sv.Name), sc.ref, t.get(t.entrySt, sv.Name), sc.ref))
		}
	}()
	t.noteWrite("*")
	na := t.fresh("alloc_hv", "Int")
	t.assume(fmt.Sprintf("(>= %s %s)", na, t.get(t.cur, "alloc")))
	t.cur.m["alloc"] = na
	for _, name := range sortedKeys(t.vars) {
		sv := t.vars[name]
		if sv.Heap || sv.Kind == "ghost" {
			nv := t.fresh(name+"_hv", sv.Sort)
			t.cur.m[name] = nv
			if sv.Kind == "ghost" && sv.Typ != nil {
				t.assume(t.wf(nv, sv.Typ))
			}
		}
	}
}

func (t *fnTrans) newRef() Term {
	a := t.get(t.cur, "alloc")
	r := t.fresh("new", "Int")
	t.define(fmt.Sprintf("(= %s (+ %s 1))", r, a))
	t.setVar("alloc", r)
	return r
}

// fieldAddrID: a stable number for (struct type, field) used by the uninterpreted `fieldaddr`.
func fieldAddrID(sty types.Type, s *types.Struct, fi int) uint32 {
	name := ""
	if sty != nil {
		name = types.TypeString(sty, nil)
	} else {
		name = s.String()
	}
	h := fnv.New32a()
	h.Write([]byte(name + "." + s.Field(fi).Name()))
	return h.Sum32() & 0x3fffffff
}

func (t *fnTrans) fieldAddrTerm(p *Path) Term {
	if p == nil || p.Ref == "" || p.ArrOf != "" || len(p.Sels) == 0 {
		return ""
	}
	r := p.Ref
	for _, sl := range p.Sels {
		if sl.Index != "" || sl.Struct == nil {
			return ""
		}
		r = fmt.Sprintf("(fieldaddr %d %s)", fieldAddrID(sl.SType, sl.Struct, sl.Field), r)
	}
	return r
}
