package main

// Typed evaluation of spec expressions into SMT terms over a program state.

import (
	"golang.org/x/tools/go/ssa"
	"fmt"
	"go/types"
	"math/big"
	"strings"
)

type bound struct {
	v  Val
	ty types.Type
}

type Env struct {
	t     *fnTrans
	st    *State
	old   *State
	vars  map[string]bound // quantifier variables, results, predicate parameters
	prm   map[string]bound // function parameters (entry values); shadowed by live local cells
	now   *State           // the current state, reachable from inside old()/atlock() via now(e)
	final  func(name string) (Val, types.Type, bool) // set when evaluating `ensures`: the function's local variables at the return point
	loopOf *loopInfo // set when evaluating an `exit` clause: the loop being left (for atloop())
	snapPrefix string      // non-empty when evaluating a callee's clauses at a call site
	local func(name string) (Val, types.Type, bool)
	at    *ssa.BasicBlock // where the clause is evaluated (loop invariants): selects the map-range iterator of visited()
	pkg   *types.Package
	depth int
}

func (e *Env) with(st *State) *Env {
	n := *e
	n.st = st
	return &n
}

func (e *Env) bind(name string, v Val, ty types.Type) *Env {
	n := *e
	n.vars = make(map[string]bound, len(e.vars)+1)
	for k, b := range e.vars {
		n.vars[k] = b
	}
	n.vars[name] = bound{v, ty}
	return &n
}

var untypedInt = types.Typ[types.UntypedInt]
var untypedNil = types.Typ[types.UntypedNil]
var tBool = types.Typ[types.Bool]
var tInt = types.Typ[types.Int]

func (e *Env) fail(f string, a ...interface{}) (Val, types.Type) {
	e.t.errorf("spec: "+f, a...)
	return Val{T: "false"}, tBool
}

func (e *Env) boolOf(x Expr) Term {
	v, ty := e.eval(x)
	if ty == nil || !isBool(ty) {
		e.t.errorf("spec: boolean expression expected, got %v in %s", ty, exprString(x))
		return "false"
	}
	return v.T
}

// lit renders an untyped integer literal for the given target type.
func (e *Env) lit(v Val, ty, target types.Type) Term {
	if ty == untypedInt && target != nil && isInt(target) && e.t.S.bv {
		dec := v.T
		if strings.HasPrefix(dec, "(- ") {
			dec = "-" + strings.TrimSuffix(strings.TrimPrefix(dec, "(- "), ")")
		}
		return e.t.S.intLit(dec, target)
	}
	return v.T
}

func (e *Env) eval(x Expr) (Val, types.Type) {
	t := e.t
	switch x := x.(type) {
	case *EInt:
		n := new(big.Int)
		if _, ok := n.SetString(x.Val, 0); !ok {
			return e.fail("bad integer literal %s", x.Val)
		}
		return Val{T: n.String()}, untypedInt
	case *EStr:
		return Val{T: t.S.strLit(x.Val)}, types.Typ[types.String]
	case *EBool:
		if x.Val {
			return Val{T: "true"}, tBool
		}
		return Val{T: "false"}, tBool
	case *ENil:
		return Val{T: "0"}, untypedNil
	case *EIdent:
		return e.ident(x.Name)
	case *EUnary:
		if x.Op == "&" {
			return e.addrOf(x.X)
		}
		v, ty := e.eval(x.X)
		switch x.Op {
		case "!":
			return Val{T: fmt.Sprintf("(not %s)", v.T)}, tBool
		case "-":
			if ty == untypedInt {
				if strings.HasPrefix(v.T, "(- ") {
					return Val{T: strings.TrimSuffix(strings.TrimPrefix(v.T, "(- "), ")")}, ty
				}
				return Val{T: "(- " + v.T + ")"}, ty
			}
			if t.S.bv {
				return Val{T: fmt.Sprintf("(bvneg %s)", v.T)}, ty
			}
			return Val{T: fmt.Sprintf("(- %s)", v.T)}, ty
		case "&":
			return e.fail("& applies to a field selection x.f")
		case "*":
			pt, ok := ty.Underlying().(*types.Pointer)
			if !ok {
				return e.fail("cannot dereference %s", ty)
			}
			var p *Path
			if v.P != nil {
				p = v.P
			} else {
				p = &Path{Ref: v.T, Typ: pt.Elem()}
			}
			r, rt := t.loadPath(e.st, p)
			return Val{T: r}, rt
		}
		return e.fail("unary %s unsupported", x.Op)
	case *EBinary:
		return e.binary(x)
	case *ECond:
		c := e.boolOf(x.C)
		a, at := e.eval(x.A)
		b, bt := e.eval(x.B)
		ty := at
		if at == untypedInt || at == untypedNil {
			ty = bt
		}
		return Val{T: fmt.Sprintf("(ite %s %s %s)", c, e.coerce(a, at, ty), e.coerce(b, bt, ty))}, ty
	case *ESelect:
		return e.selectField(x)
	case *EIndex:
		return e.index(x)
	case *ESlice:
		v, ty := e.eval(x.X)
		sl, ok := ty.Underlying().(*types.Slice)
		if !ok {
			return e.fail("slicing of %s unsupported in specs", ty)
		}
		_ = sl
		lo := "0"
		if x.Lo != nil {
			l, lt := e.eval(x.Lo)
			lo = e.lit(l, lt, tInt)
		}
		if lo != "0" {
			t.S.ixArith = true
		}
		hi := fmt.Sprintf("(slen %s)", v.T)
		if x.Hi != nil {
			h, ht := e.eval(x.Hi)
			hi = e.lit(h, ht, tInt)
		}
		return Val{T: fmt.Sprintf("(mk_slice (sbase %s) (+ (soff %s) %s) (- %s %s) (- (scap %s) %s))", v.T, v.T, lo, hi, lo, v.T, lo)}, ty
	case *ECall:
		return e.call(x)
	case *EQuant:
		n := e
		var bs []string
		for _, qv := range x.Vars {
			ty := t.eng.resolveType(qv.Type, e.pkg)
			if ty == nil {
				return e.fail("unknown type %q in quantifier", qv.Type)
			}
			t.nfresh++
			name := fmt.Sprintf("q_%s_%d", sanitize(qv.Name), t.nfresh)
			bs = append(bs, fmt.Sprintf("(%s %s)", name, t.S.sortOf(ty)))
			n = n.bind(qv.Name, Val{T: name}, ty)
		}
		body := n.boolOf(x.Body)
		pat := ""
		for _, trig := range x.Triggers {
			var ts []string
			for _, te := range trig {
				tv, _ := n.eval(te)
				ts = append(ts, tv.T)
			}
			pat += " :pattern (" + strings.Join(ts, " ") + ")"
		}
		if pat != "" {
			body = fmt.Sprintf("(! %s%s)", body, pat)
		}
		q := "forall"
		if !x.Forall {
			q = "exists"
		}
		return Val{T: fmt.Sprintf("(%s (%s) %s)", q, strings.Join(bs, " "), body)}, tBool
	}
	return e.fail("unsupported expression %T", x)
}

func (e *Env) coerce(v Val, ty, target types.Type) Term {
	if ty == untypedInt {
		return e.lit(v, ty, target)
	}
	if ty == untypedNil && target != nil {
		switch target.Underlying().(type) {
		case *types.Interface:
			return "iface_nil"
		case *types.Slice:
			return "slice_nil"
		}
		return "0"
	}
	return v.T
}

func (e *Env) ident(name string) (Val, types.Type) {
	t := e.t
	if b, ok := e.vars[name]; ok {
		if b.v.P != nil && b.v.T == "" {
			return e.locBound(b)
		}
		return b.v, b.ty
	}
	if e.local != nil {
		if v, ty, ok := e.local(name); ok {
			return v, ty
		}
	}
	if b, ok := e.prm[name]; ok {
		if b.v.P != nil && b.v.T == "" {
			return e.locBound(b)
		}
		return b.v, b.ty
	}
	if g, ok := t.eng.contracts.Ghosts[name]; ok {
		sv := t.ghostVar(g, e.pkgOf(g.Pkg))
		return Val{T: t.get(e.st, sv.Name)}, sv.Typ
	}
	// package-level constant or variable
	if e.pkg != nil {
		if obj := e.pkg.Scope().Lookup(name); obj != nil {
			switch o := obj.(type) {
			case *types.Const:
				return e.constObj(o)
			case *types.Var:
				if g := t.eng.globalOf(o); g != nil {
					sv := t.globalVar(g)
					return Val{T: t.get(e.st, sv.Name)}, sv.Typ
				}
			}
		}
	}
	return e.fail("unknown identifier %q", name)
}

func (e *Env) pkgOf(path string) *types.Package {
	if p := e.t.eng.typesPkg(path); p != nil {
		return p
	}
	return e.pkg
}

func (e *Env) constObj(o *types.Const) (Val, types.Type) {
	t := e.t
	ty := o.Type()
	switch {
	case isInt(ty) || ty == untypedInt || (ty.Underlying() == types.Typ[types.UntypedRune]):
		s := o.Val().ExactString()
		if b, ok := ty.Underlying().(*types.Basic); ok && b.Info()&types.IsUntyped != 0 {
			n := new(big.Int)
			n.SetString(s, 10)
			if n.Sign() < 0 {
				return Val{T: "(- " + new(big.Int).Neg(n).String() + ")"}, untypedInt
			}
			return Val{T: n.String()}, untypedInt
		}
		return Val{T: t.S.intLit(s, ty)}, ty
	case isString(ty):
		s := o.Val().ExactString()
		// ExactString is quoted
		var un string
		fmt.Sscanf(s, "%q", &un)
		return Val{T: t.S.strLit(un)}, types.Typ[types.String]
	case isBool(ty):
		return Val{T: o.Val().ExactString()}, tBool
	}
	return e.fail("constant %s of unsupported type %s", o.Name(), ty)
}

func (e *Env) selectField(x *ESelect) (Val, types.Type) {
	t := e.t
	// qualified identifier pkg.Name ?
	if id, ok := x.X.(*EIdent); ok {
		_, isPrm := e.prm[id.Name]
		if _, bnd := e.vars[id.Name]; !bnd && !isPrm {
			known := false
			if e.local != nil {
				_, _, known = e.local(id.Name)
			}
			if !known {
				if p := t.eng.importedPkg(e.pkg, id.Name); p != nil {
					sub := *e
					sub.pkg = p
					sub.vars = map[string]bound{}
					sub.local = nil
					return sub.ident(x.Sel)
				}
			}
		}
	}
	v, ty := e.eval(x.X)
	if ty == nil {
		return e.fail("select on untyped")
	}
	obj, index, _ := types.LookupFieldOrMethod(ty, true, e.pkg, x.Sel)
	if obj == nil {
		// try from the type's own package (unexported fields of other packages in the repo)
		if n := namedOf(ty); n != nil && n.Obj().Pkg() != nil {
			obj, index, _ = types.LookupFieldOrMethod(ty, true, n.Obj().Pkg(), x.Sel)
		}
	}
	fv, ok := obj.(*types.Var)
	if !ok || !fv.IsField() {
		return e.fail("no field %s in %s", x.Sel, ty)
	}
	cur, cty := v.T, ty
	for _, fi := range index {
		if pt, ok := cty.Underlying().(*types.Pointer); ok {
			st := pt.Elem()
			s := st.Underlying().(*types.Struct)
			f := s.Field(fi)
			if at, isArr := f.Type().Underlying().(*types.Array); isArr {
				ev := t.elemsVar(at.Elem())
				cur = fmt.Sprintf("(select %s %s)", t.get(e.st, ev.Name), t.fieldArrBase(st, fi, cur))
			} else {
				sv := t.fieldVar(st, fi)
				cur = sel(t.get(e.st, sv.Name), cur)
			}
			cty = f.Type()
			continue
		}
		s, ok := cty.Underlying().(*types.Struct)
		if !ok {
			return e.fail("select .%s on %s", x.Sel, cty)
		}
		so := t.S.sortOf(cty)
		cur = fmt.Sprintf("(%s_%s %s)", so, sanitize(s.Field(fi).Name()), cur)
		cty = s.Field(fi).Type()
	}
	return Val{T: cur}, cty
}

func namedOf(ty types.Type) *types.Named {
	ty = types.Unalias(ty)
	if p, ok := ty.(*types.Pointer); ok {
		ty = types.Unalias(p.Elem())
	}
	n, _ := ty.(*types.Named)
	return n
}

func (e *Env) index(x *EIndex) (Val, types.Type) {
	t := e.t
	v, ty := e.eval(x.X)
	i, it := e.eval(x.I)
	// positions are mathematical integers also in bit-vector mode
	pos := func() Term {
		if !t.S.bv {
			return e.lit(i, it, tInt)
		}
		if it == untypedInt {
			return i.T
		}
		return t.toInt(i.T, it)
	}
	switch u := ty.Underlying().(type) {
	case *types.Slice:
		ev := t.elemsVar(u.Elem())
		idx := pos()
		return Val{T: fmt.Sprintf("(select (select %s (sbase %s)) (ix (soff %s) %s))", t.get(e.st, ev.Name), v.T, v.T, idx)}, u.Elem()
	case *types.Array:
		if u.Len() < 0 {
			return Val{T: fmt.Sprintf("(seq_at_%s %s %s)", typeKey(u.Elem()), v.T, pos())}, u.Elem()
		}
		return Val{T: fmt.Sprintf("(select %s %s)", v.T, pos())}, u.Elem()
	case *types.Map:
		_, mv, _ := t.mapVars(u)
		return Val{T: fmt.Sprintf("(select (select %s %s) %s)", t.get(e.st, mv.Name), v.T, e.coerce(i, it, u.Key()))}, u.Elem()
	case *types.Basic:
		if isString(ty) {
			return Val{T: fmt.Sprintf("(str_at %s %s)", v.T, pos())}, types.Typ[types.Uint8]
		}
	case *types.Pointer:
		if at, ok := u.Elem().Underlying().(*types.Array); ok {
			// pointer to array object stored in elems
			ev := t.elemsVar(at.Elem())
			return Val{T: fmt.Sprintf("(select (select %s %s) %s)", t.get(e.st, ev.Name), v.T, pos())}, at.Elem()
		}
	}
	return e.fail("cannot index %s", ty)
}

func (e *Env) binary(x *EBinary) (Val, types.Type) {
	t := e.t
	switch x.Op {
	case "&&", "||", "==>", "<==>":
		a, b := e.boolOf(x.X), e.boolOf(x.Y)
		op := map[string]string{"&&": "and", "||": "or", "==>": "=>", "<==>": "="}[x.Op]
		return Val{T: fmt.Sprintf("(%s %s %s)", op, a, b)}, tBool
	}
	a, at := e.eval(x.X)
	b, bt := e.eval(x.Y)
	if at == nil || bt == nil {
		return e.fail("untyped operand in %s", exprString(x))
	}
	ty := at
	if at == untypedInt || at == untypedNil {
		ty = bt
	}
	av, bv := e.coerce(a, at, ty), e.coerce(b, bt, ty)
	switch x.Op {
	case "==", "!=":
		var r Term
		_, aSl := at.Underlying().(*types.Slice)
		_, bSl := bt.Underlying().(*types.Slice)
		switch {
		case aSl && bt == untypedNil:
			r = fmt.Sprintf("(= (sbase %s) 0)", av)
		case bSl && at == untypedNil:
			r = fmt.Sprintf("(= (sbase %s) 0)", bv)
		default:
			r = fmt.Sprintf("(= %s %s)", av, bv)
		}
		if x.Op == "!=" {
			r = "(not " + r + ")"
		}
		return Val{T: r}, tBool
	case "<", "<=", ">", ">=":
		if ty != nil && ty != untypedInt && isString(ty) {
			return Val{T: strOrder(x.Op, av, bv)}, tBool
		}
		if isFloat(ty) {
			return Val{T: fmt.Sprintf("(%s %s %s)", x.Op, av, bv)}, tBool
		}
		if t.S.bv && ty != untypedInt {
			s := "s"
			if isUnsigned(ty) {
				s = "u"
			}
			op := map[string]string{"<": "lt", "<=": "le", ">": "gt", ">=": "ge"}[x.Op]
			return Val{T: fmt.Sprintf("(bv%s%s %s %s)", s, op, av, bv)}, tBool
		}
		return Val{T: fmt.Sprintf("(%s %s %s)", x.Op, av, bv)}, tBool
	}
	// arithmetic
	if ty == untypedInt {
		// constant folding of literals
		an, aok := new(big.Int).SetString(strings.Trim(strings.Replace(av, "(- ", "-", 1), ")"), 10)
		bn, bok := new(big.Int).SetString(strings.Trim(strings.Replace(bv, "(- ", "-", 1), ")"), 10)
		if aok && bok {
			var r *big.Int
			switch x.Op {
			case "+":
				r = new(big.Int).Add(an, bn)
			case "-":
				r = new(big.Int).Sub(an, bn)
			case "*":
				r = new(big.Int).Mul(an, bn)
			case "/":
				if bn.Sign() != 0 {
					r = new(big.Int).Quo(an, bn)
				}
			case "<<":
				r = new(big.Int).Lsh(an, uint(bn.Uint64()))
			}
			if r != nil {
				if r.Sign() < 0 {
					return Val{T: "(- " + new(big.Int).Neg(r).String() + ")"}, untypedInt
				}
				return Val{T: r.String()}, untypedInt
			}
		}
	}
	if t.S.bv && ty != untypedInt && isInt(ty) {
		signed := !isUnsigned(ty)
		var op string
		switch x.Op {
		case "+":
			op = "bvadd"
		case "-":
			op = "bvsub"
		case "*":
			op = "bvmul"
		case "/":
			op = "bvudiv"
			if signed {
				op = "bvsdiv"
			}
		case "%":
			op = "bvurem"
			if signed {
				op = "bvsrem"
			}
		case "&":
			op = "bvand"
		case "|":
			op = "bvor"
		case "^":
			op = "bvxor"
		case "<<":
			op = "bvshl"
		case ">>":
			op = "bvlshr"
			if signed {
				op = "bvashr"
			}
		default:
			return e.fail("operator %s unsupported", x.Op)
		}
		return Val{T: fmt.Sprintf("(%s %s %s)", op, av, bv)}, ty
	}
	if isFloat(ty) {
		return Val{T: fmt.Sprintf("(%s %s %s)", x.Op, av, bv)}, ty
	}
	switch x.Op {
	case "+", "-", "*":
		if isString(ty) && x.Op == "+" {
			return Val{T: fmt.Sprintf("(str_cat %s %s)", av, bv)}, ty
		}
		return Val{T: fmt.Sprintf("(%s %s %s)", x.Op, av, bv)}, ty
	case "/":
		return Val{T: fmt.Sprintf("(tdiv %s %s)", av, bv)}, ty
	case "%":
		return Val{T: fmt.Sprintf("(tmod %s %s)", av, bv)}, ty
	}
	return e.fail("operator %s unsupported in Int mode", x.Op)
}

func (e *Env) call(x *ECall) (Val, types.Type) {
	t := e.t
	arg := func(i int) (Val, types.Type) {
		if i >= len(x.Args) {
			e.t.errorf("spec: %s: missing argument %d", x.Fun, i)
			return Val{T: "0"}, tInt
		}
		return e.eval(x.Args[i])
	}
	lenTy := tInt
	mkInt := func(term Term) Val {
		if t.S.bv {
			return Val{T: fmt.Sprintf("((_ int2bv 64) %s)", term)}
		}
		return Val{T: term}
	}
	switch x.Fun {
	case "old":
		if e.old == nil {
			return e.fail("old() not available here")
		}
		oe := e.with(e.old)
		if oe.now == nil {
			oe.now = e.st
		}
		oe.local = nil // locals do not exist in the pre-state: names mean the parameters' entry values
		return oe.eval(x.Args[0])
	case "now":
		if e.now == nil {
			return e.eval(x.Args[0])
		}
		return e.with(e.now).eval(x.Args[0])
	case "atlock", "atunlock":
		// atlock(e) / atunlock(e): state at the most recent Lock / Unlock of any modelled mutex;
		// atlock(e, "mutexField") / atunlock(e, "mutexField"): of that mutex (lock item field name)
		tag := x.Fun
		if len(x.Args) == 2 {
			s, ok := x.Args[1].(*EStr)
			if !ok {
				return e.fail("%s: the second argument must be a string literal naming the mutex field", x.Fun)
			}
			// "field" = the most recent operation on a mutex field of that name (of any struct type);
			// "Type.field" = on that lock item exactly (needed when two types embed e.g. sync.RWMutex)
			f := s.Val
			known := false
			for _, l := range t.eng.contracts.Locks {
				if l.Field == f || l.Type+"."+l.Field == f {
					known = true
				}
			}
			if !known {
				return e.fail("%s: no lock item for mutex %q", x.Fun, f)
			}
			tag = x.Fun + "." + f
		}
		snap := &State{m: map[string]Term{}}
		for name := range t.vars {
			snap.m[name] = t.get(e.st, e.snapPrefix+tag+":"+name)
		}
		se := e.with(snap)
		if se.now == nil {
			se.now = e.st
		}
		return se.eval(x.Args[0])
	case "len":
		v, ty := arg(0)
		switch u := ty.Underlying().(type) {
		case *types.Slice:
			return mkInt(fmt.Sprintf("(slen %s)", v.T)), lenTy
		case *types.Array:
			return mkInt(fmt.Sprint(u.Len())), lenTy
		case *types.Map:
			_, _, ml := t.mapVars(u)
			return mkInt(fmt.Sprintf("(ite (= %s 0) 0 (select %s %s))", v.T, t.get(e.st, ml.Name), v.T)), lenTy
		case *types.Basic:
			if isString(ty) {
				return mkInt(fmt.Sprintf("(strlen %s)", v.T)), lenTy
			}
		case *types.Chan:
			cl := t.stateVar("CL_"+typeKey(ty), "(Array Int Int)", "chan", true, nil)
			return mkInt(fmt.Sprintf("(select %s %s)", t.get(e.st, cl.Name), v.T)), lenTy
		}
		return e.fail("len of %s", ty)
	case "cap":
		v, ty := arg(0)
		if _, ok := ty.Underlying().(*types.Slice); ok {
			return mkInt(fmt.Sprintf("(scap %s)", v.T)), lenTy
		}
		return e.fail("cap of %s", ty)
	case "closed":
		v, ty := arg(0)
		if _, ok := ty.Underlying().(*types.Chan); !ok {
			return e.fail("closed() needs a channel")
		}
		return Val{T: fmt.Sprintf("(select %s %s)", t.get(e.st, t.chanClosedVar(ty).Name), v.T)}, tBool
	case "sent", "recvd", "lastsent":
		// ghost channel counters: completed sends / receives on this channel, last value sent
		v, ty := arg(0)
		ct, ok := ty.Underlying().(*types.Chan)
		if !ok {
			return e.fail("%s() needs a channel", x.Fun)
		}
		sent, last, recvd := t.chanVars(ty)
		switch x.Fun {
		case "sent":
			return Val{T: fmt.Sprintf("(select %s %s)", t.get(e.st, sent.Name), v.T)}, tInt
		case "recvd":
			return Val{T: fmt.Sprintf("(select %s %s)", t.get(e.st, recvd.Name), v.T)}, tInt
		}
		return Val{T: fmt.Sprintf("(select %s %s)", t.get(e.st, last.Name), v.T)}, ct.Elem()
	case "allocated":
		// the reference existed when this state was taken (fresh allocations are distinct from it)
		v, _ := arg(0)
		return Val{T: fmt.Sprintf("(and (<= 0 %s) (<= %s %s))", v.T, v.T, t.get(e.st, "alloc"))}, tBool
	case "fresh":
		// allocated by this function execution (after entry): cannot alias anything the caller knows
		v, ty := arg(0)
		a0 := t.get(t.entrySt, "alloc")
		if _, ok := ty.Underlying().(*types.Slice); ok {
			return Val{T: fmt.Sprintf("(or (> (sbase %s) %s) (and (= (sbase %s) 0) (= (scap %s) 0)))", v.T, a0, v.T, v.T)}, tBool
		}
		return Val{T: fmt.Sprintf("(> %s %s)", v.T, a0)}, tBool
	case "base":
		v, _ := arg(0)
		return Val{T: fmt.Sprintf("(sbase %s)", v.T)}, tInt
	case "off":
		v, _ := arg(0)
		return Val{T: fmt.Sprintf("(soff %s)", v.T)}, tInt
	case "arr":
		v, ty := arg(0)
		sl, ok := ty.Underlying().(*types.Slice)
		if !ok {
			return e.fail("arr() needs a slice")
		}
		ev := t.elemsVar(sl.Elem())
		return Val{T: t.seqOf(fmt.Sprintf("(select %s (sbase %s))", t.get(e.st, ev.Name), v.T), sl.Elem())}, types.NewArray(sl.Elem(), -1)
	case "setin", "setadd":
		// setin(s, x) / setadd(s, x) on the spec-only set type set[T]
		sv, sty := arg(0)
		x0, xt := arg(1)
		at, ok := sty.Underlying().(*types.Array)
		if !ok || at.Len() != -2 {
			return e.fail("%s() needs a set[T]", x.Fun)
		}
		xv := e.coerce(x0, xt, at.Elem())
		if x.Fun == "setin" {
			return Val{T: fmt.Sprintf("(select %s %s)", sv.T, xv)}, tBool
		}
		return Val{T: fmt.Sprintf("(store %s %s true)", sv.T, xv)}, sty
	case "atloop":
		// atloop(e): e evaluated in the state in which the loop this invariant belongs to was entered (before its
		// first iteration); atloop(e, n): loop n of the function (must enclose or precede the point of evaluation)
		if e.at == nil {
			return e.fail("atloop() is only available in loop invariants")
		}
		var li *loopInfo
		if len(x.Args) == 2 {
			n, ok := x.Args[1].(*EInt)
			if !ok {
				return e.fail("atloop: the second argument must be a loop ordinal")
			}
			for _, l := range t.loops {
				if fmt.Sprint(l.ordinal) == n.Val {
					li = l
				}
			}
		} else if e.loopOf != nil {
			li = e.loopOf
		} else {
			li = t.loops[e.at.Index]
		}
		if li == nil {
			return e.fail("atloop(): no such loop (without an ordinal it is only available in the invariants of a loop)")
		}
		if !(li.header == e.at || li.header.Dominates(e.at)) {
			return e.fail("atloop(): loop %d does not dominate this point", li.ordinal)
		}
		snap := &State{m: map[string]Term{}}
		pre := fmt.Sprintf("atloop%d:", li.ordinal)
		for name := range t.vars {
			if _, ok := e.st.m[pre+name]; ok {
				snap.m[name] = e.st.m[pre+name]
			} else {
				// on the entry edge the snapshot is the current state
				snap.m[name] = t.get(e.st, name)
			}
		}
		se := e.with(snap)
		if se.now == nil {
			se.now = e.st
		}
		return se.eval(x.Args[0])
	case "holds", "holdsw":
		// holds(x, "mutexField") / holdsw(x, "mutexField"): the executing function holds that mutex of object x
		// (in any mode / in write mode). Tracked for mutexes with a lock item; unknown at function entry unless required.
		if len(x.Args) != 2 {
			return e.fail("%s(x, \"mutexField\") needs two arguments", x.Fun)
		}
		s, ok := x.Args[1].(*EStr)
		if !ok {
			return e.fail("%s: the second argument must be a string literal naming the mutex field", x.Fun)
		}
		v, ty := arg(0)
		pt, ok := ty.Underlying().(*types.Pointer)
		if !ok {
			return e.fail("%s: the first argument must be a pointer to the struct that owns the mutex", x.Fun)
		}
		stName := ""
		if n, ok := types.Unalias(pt.Elem()).(*types.Named); ok {
			stName = n.Obj().Name()
		}
		known := false
		for _, l := range t.eng.contracts.Locks {
			if l.Field == s.Val && l.Type == stName && l.Pkg == pkgPathOf(pt.Elem()) {
				known = true
			}
		}
		if !known {
			return e.fail("%s: no lock item %s.%s", x.Fun, stName, s.Val)
		}
		m := fmt.Sprintf("(select %s %s)", t.get(e.st, t.lockModeVar(stName, s.Val).Name), v.T)
		if x.Fun == "holdsw" {
			return Val{T: fmt.Sprintf("(= %s 2)", m)}, tBool
		}
		return Val{T: fmt.Sprintf("(>= %s 1)", m)}, tBool
	case "fnname", "fnrecv":
		// fnname(x): the name of the function a function-typed value denotes, when the engine knows it statically at this point
		// (a function, a closure, a bound method value `s.handler`: "(*pkg.T).handler"); an arbitrary string otherwise.
		// fnrecv(x): the receiver a bound method value was made from (nil reference otherwise).
		v, _ := arg(0)
		if x.Fun == "fnname" {
			if v.Fn != nil {
				n := strings.TrimSuffix(v.Fn.String(), "$bound")
				return Val{T: t.S.strLit(n)}, types.Typ[types.String]
			}
			// not known statically here: the name attached to the function value itself (set where the value was made)
			return Val{T: fmt.Sprintf("(fnname_of %s)", v.T)}, types.Typ[types.String]
		}
		if v.Fn != nil && strings.HasSuffix(v.Fn.String(), "$bound") && len(v.Bnd) == 1 && len(v.Fn.FreeVars) == 1 {
			return Val{T: t.term(v.Bnd[0])}, v.Fn.FreeVars[0].Type()
		}
		return e.fail("fnrecv(): the value is not a bound method value known at this point")
	case "final":
		// final(x): the value of the function's local variable x at this return (ensures only; parameters by their plain name mean ENTRY values)
		id, ok := x.Args[0].(*EIdent)
		if !ok || len(x.Args) != 1 {
			return e.fail("final() takes the name of a local variable")
		}
		if e.final == nil {
			return e.fail("final() is only available in ensures clauses")
		}
		v, ty, ok := e.final(id.Name)
		if !ok {
			// not in scope at THIS return (declared on another path): an arbitrary value of its type - a clause can then only
			// hold here if it does not depend on it
			for _, a := range t.cells {
				if a.Comment == id.Name {
					et := a.Type().(*types.Pointer).Elem()
					return Val{T: t.freshVal("final_out_of_scope", et)}, et
				}
			}
			return e.fail("final(%s): the function has no local variable of that name", id.Name)
		}
		return v, ty
	case "listened":
		// listened(ch): the most recent `select` executed by this function had a case (send or receive) on the non-nil channel ch
		v, ty := arg(0)
		if _, ok := ty.Underlying().(*types.Chan); !ok {
			return e.fail("listened() needs a channel")
		}
		return Val{T: fmt.Sprintf("(select %s %s)", t.get(e.st, t.chanListenedVar(ty).Name), v.T)}, tBool
	case "drained":
		// drained(ch): the most recent channel operation of this function on ch was a non-blocking select with a
		// receive case on ch that took its default branch (the queue was seen empty and nothing was sent since)
		v, ty := arg(0)
		if _, ok := ty.Underlying().(*types.Chan); !ok {
			return e.fail("drained() needs a channel")
		}
		return Val{T: fmt.Sprintf("(select %s %s)", t.get(e.st, t.chanDrainedVar(ty).Name), v.T)}, tBool
	case "visited":
		// visited(k): key k has already been yielded by the map `range` loop this invariant belongs to
		// (the innermost map range whose Range instruction dominates the point of evaluation)
		if e.at == nil {
			return e.fail("visited() is only available in loop invariants")
		}
		var best *ssa.Range
		if len(x.Args) == 2 {
			// visited(k, n): the map range of loop n (an enclosing loop's iterator inside a nested loop)
			n, ok := x.Args[1].(*EInt)
			if !ok {
				return e.fail("visited: the second argument must be a loop ordinal")
			}
			for rg := range t.rangeIters {
				for _, ref := range *rg.Referrers() {
					if nx, ok := ref.(*ssa.Next); ok {
						if l := t.loops[nx.Block().Index]; l != nil && fmt.Sprint(l.ordinal) == n.Val && (rg.Block() == e.at || rg.Block().Dominates(e.at)) {
							best = rg
						}
					}
				}
			}
			if best == nil {
				return e.fail("visited(): loop %s is not a map range loop in scope", n.Val)
			}
		} else {
			for rg := range t.rangeIters {
				if rg.Block() == e.at || rg.Block().Dominates(e.at) {
					if best == nil || best.Block().Dominates(rg.Block()) {
						best = rg
					}
				}
			}
		}
		if best == nil {
			return e.fail("visited(): no map range loop in scope")
		}
		k, kt := arg(0)
		mt := best.X.Type().Underlying().(*types.Map)
		return Val{T: fmt.Sprintf("(select %s %s)", t.get(e.st, t.rangeIters[best]), e.coerce(k, kt, mt.Key()))}, tBool
	case "has":
		m, mt := arg(0)
		k, kt := arg(1)
		u, ok := mt.Underlying().(*types.Map)
		if !ok {
			return e.fail("has() needs a map")
		}
		md, _, _ := t.mapVars(u)
		return Val{T: fmt.Sprintf("(and (not (= %s 0)) (select (select %s %s) %s))", m.T, t.get(e.st, md.Name), m.T, e.coerce(k, kt, u.Key()))}, tBool
	case "min", "max":
		a, at := arg(0)
		b, bt := arg(1)
		ty := at
		if at == untypedInt {
			ty = bt
		}
		av, bv := e.coerce(a, at, ty), e.coerce(b, bt, ty)
		cmp := "<="
		if x.Fun == "max" {
			cmp = ">="
		}
		if t.S.bv && ty != untypedInt {
			cmp = map[string]string{"<=": "bvsle", ">=": "bvsge"}[cmp]
		}
		return Val{T: fmt.Sprintf("(ite (%s %s %s) %s %s)", cmp, av, bv, av, bv)}, ty
	case "fdiv", "fmod":
		a, at := arg(0)
		b, bt := arg(1)
		op := map[string]string{"fdiv": "div", "fmod": "mod"}[x.Fun]
		ty := at
		if at == untypedInt {
			ty = bt
		}
		return Val{T: fmt.Sprintf("(%s %s %s)", op, e.coerce(a, at, ty), e.coerce(b, bt, ty))}, ty
	case "implements":
		// implements(x, "pkg.Iface"): the dynamic type of interface value x is non-nil and implements Iface
		// (the predicate an interface-to-interface type assertion x.(Iface) needs)
		s, ok := x.Args[1].(*EStr)
		if !ok {
			return e.fail("implements needs a string literal naming the interface type")
		}
		ity := t.eng.resolveType(s.Val, e.pkg)
		if ity == nil {
			return e.fail("implements: unknown type %s", s.Val)
		}
		if _, isI := ity.Underlying().(*types.Interface); !isI {
			return e.fail("implements: %s is not an interface type", s.Val)
		}
		v, _ := arg(0)
		return Val{T: fmt.Sprintf("(and (not (= (ityp %s) 0)) %s)", v.T, t.implPred(ity, fmt.Sprintf("(ityp %s)", v.T)))}, tBool
	case "dyntype":
		v, _ := arg(0)
		return Val{T: fmt.Sprintf("(ityp %s)", v.T)}, tInt
	case "typetag":
		s, ok := x.Args[0].(*EStr)
		if !ok {
			return e.fail("typetag needs a string literal")
		}
		ty := t.eng.resolveType(s.Val, e.pkg)
		if ty == nil {
			return e.fail("typetag: unknown type %s", s.Val)
		}
		return Val{T: t.S.tagOf(ty)}, tInt
	case "unbox":
		// unbox(iface, "T"): payload of an interface value as T
		v, _ := arg(0)
		s, ok := x.Args[1].(*EStr)
		if !ok {
			return e.fail("unbox needs a type string")
		}
		ty := t.eng.resolveType(s.Val, e.pkg)
		if ty == nil {
			return e.fail("unbox: unknown type %s", s.Val)
		}
		r := Val{T: t.S.unbox(fmt.Sprintf("(ival %s)", v.T), ty)}
		if v.IfaceP != nil && v.IfaceT != nil && types.Identical(v.IfaceT, ty) {
			// the interface holds the address of a location of the caller: *unbox(..) reads / names that location
			r.P = v.IfaceP
		}
		return r, ty
	}
	// conversions T(x)
	if ty := t.eng.resolveType(x.Fun, e.pkg); ty != nil && len(x.Args) == 1 {
		if _, isPred := t.eng.contracts.Preds[x.Fun]; !isPred {
			v, vt := arg(0)
			if vt == untypedInt {
				return Val{T: e.lit(v, vt, ty)}, ty
			}
			if isInt(ty) && isInt(vt) {
				if t.S.bv {
					return Val{T: t.convert(v.T, vt, ty)}, ty
				}
				return Val{T: v.T}, ty // mathematical: no wrap in specs
			}
			if t.S.sortOf(ty) == t.S.sortOf(vt) {
				return Val{T: v.T}, ty
			}
			return e.fail("conversion %s(%s) unsupported", x.Fun, vt)
		}
	}
	if i := strings.LastIndex(x.Fun, "."); i >= 0 {
		if _, ok := t.eng.contracts.Preds[x.Fun[i+1:]]; ok {
			x = &ECall{Fun: x.Fun[i+1:], Args: x.Args} // pkg.pred(...): predicates are global by name
		}
	}
	if p, ok := t.eng.contracts.Preds[x.Fun]; ok {
		if len(x.Args) != len(p.Params) {
			return e.fail("%s: %d arguments expected", x.Fun, len(p.Params))
		}
		ppkg := e.pkgOf(p.Pkg)
		if p.Body == nil {
			// uninterpreted spec function
			var sorts, args []string
			for i, prm := range p.Params {
				pty := t.eng.resolveType(prm.Type, ppkg)
				if pty == nil {
					return e.fail("%s: unknown type %s", x.Fun, prm.Type)
				}
				a, at := arg(i)
				sorts = append(sorts, t.S.sortOf(pty))
				args = append(args, e.coerce(a, at, pty))
			}
			rty := types.Type(tBool)
			if p.Result != "" {
				rty = t.eng.resolveType(p.Result, ppkg)
				if rty == nil {
					return e.fail("%s: unknown result type %s", x.Fun, p.Result)
				}
			}
			fn := "sf_" + sanitize(p.Name)
			if !t.S.declared[fn] {
				t.S.declared[fn] = true
				t.S.decls = append(t.S.decls, fmt.Sprintf("(declare-fun %s (%s) %s)", fn, strings.Join(sorts, " "), t.S.sortOf(rty)))
			}
			if len(args) == 0 {
				return Val{T: fn}, rty
			}
			return Val{T: fmt.Sprintf("(%s %s)", fn, strings.Join(args, " "))}, rty
		}
		if e.depth > 20 {
			return e.fail("predicate expansion too deep (recursive pred %s?)", x.Fun)
		}
		n := &Env{t: t, st: e.st, old: e.old, vars: map[string]bound{}, pkg: ppkg, depth: e.depth + 1}
		for i, prm := range p.Params {
			pty := t.eng.resolveType(prm.Type, ppkg)
			if pty == nil {
				return e.fail("%s: unknown type %s", x.Fun, prm.Type)
			}
			a, at := arg(i)
			n.vars[prm.Name] = bound{Val{T: e.coerce(a, at, pty), IfaceP: a.IfaceP, IfaceT: a.IfaceT}, pty}
		}
		v, ty := n.eval(p.Body)
		return v, ty
	}
	return e.fail("unknown function %s", x.Fun)
}

func exprString(x Expr) string {
	switch x := x.(type) {
	case *EIdent:
		return x.Name
	case *EInt:
		return x.Val
	case *EStr:
		return fmt.Sprintf("%q", x.Val)
	case *EBool:
		return fmt.Sprint(x.Val)
	case *ENil:
		return "nil"
	case *EUnary:
		return x.Op + exprString(x.X)
	case *EBinary:
		return "(" + exprString(x.X) + " " + x.Op + " " + exprString(x.Y) + ")"
	case *ESelect:
		return exprString(x.X) + "." + x.Sel
	case *EIndex:
		return exprString(x.X) + "[" + exprString(x.I) + "]"
	case *ECall:
		var as []string
		for _, a := range x.Args {
			as = append(as, exprString(a))
		}
		return x.Fun + "(" + strings.Join(as, ", ") + ")"
	case *ECond:
		return exprString(x.C) + " ? " + exprString(x.A) + " : " + exprString(x.B)
	case *EQuant:
		return "quantified"
	case *ESlice:
		return exprString(x.X) + "[:]"
	}
	return "?"
}

// seqOf: the spec-level sequence view of an SMT array term (memoised per term), with the
// bridging fact seq_at(view, i) = select(array, i).
func (t *fnTrans) seqOf(arr Term, elem types.Type) Term {
	if t.seqViews == nil {
		t.seqViews = map[string]Term{}
	}
	key := typeKey(elem) + "|" + arr
	if v, ok := t.seqViews[key]; ok {
		return v
	}
	so := t.S.sortOf(types.NewArray(elem, -1))
	v := fmt.Sprintf("seqview_%d", len(t.seqViews))
	t.declare(v, so)
	t.seqViews[key] = v
	t.seqFacts = append(t.seqFacts, fmt.Sprintf("(forall ((qi Int)) (! (= (seq_at_%s %s qi) (select %s qi)) :pattern ((seq_at_%s %s qi))))", typeKey(elem), v, arr, typeKey(elem), v))
	return v
}

// locBound: a name bound to a location. If the name has pointer type (an interior pointer such as
// &c.inFlightPQ passed as receiver) the value is that pointer (non-nil; `*name` loads through the
// location); otherwise (captured variable) the value is the content of the location.
func (e *Env) locBound(b bound) (Val, types.Type) {
	t := e.t
	if pt, ok := b.ty.Underlying().(*types.Pointer); ok {
		_, pty := t.loadPath(e.st, b.v.P)
		if pty != nil && types.Identical(pt.Elem(), pty) {
			key := fmt.Sprintf("%p", b.v.P)
			if t.locPtrs == nil {
				t.locPtrs = map[string]Term{}
			}
			pv, ok := t.locPtrs[key]
			if fa := t.fieldAddrTerm(b.v.P); !ok && fa != "" {
				pv, ok = fa, true
				t.cons = append(t.cons, constraint{0, false, fmt.Sprintf("(> %s 0)", pv)})
				t.locPtrs[key] = pv
			}
			if !ok {
				pv = t.fresh("locptr", "Int")
				t.cons = append(t.cons, constraint{0, false, fmt.Sprintf("(< %s 0)", pv)})
				t.locPtrs[key] = pv
			}
			return Val{T: pv, P: b.v.P}, b.ty
		}
	}
	r, _ := t.loadPath(e.st, b.v.P)
	return Val{T: r}, b.ty
}

// addrOf: `&x.f` - the address of a field of a heap object (uninterpreted function of object and field,
// the same term the translation uses when such an address becomes a first-class value).
func (e *Env) addrOf(x Expr) (Val, types.Type) {
	sx, ok := x.(*ESelect)
	if !ok {
		return e.fail("& applies to a field selection x.f")
	}
	v, ty := e.eval(sx.X)
	if ty == nil {
		return e.fail("select on untyped")
	}
	obj, index, _ := types.LookupFieldOrMethod(ty, true, e.pkg, sx.Sel)
	if obj == nil {
		if n := namedOf(ty); n != nil && n.Obj().Pkg() != nil {
			obj, index, _ = types.LookupFieldOrMethod(ty, true, n.Obj().Pkg(), sx.Sel)
		}
	}
	fv, ok := obj.(*types.Var)
	if !ok || !fv.IsField() {
		return e.fail("no field %s in %s", sx.Sel, ty)
	}
	pt, ok := ty.Underlying().(*types.Pointer)
	if !ok {
		return e.fail("&x.f: x must be a pointer to a struct")
	}
	cur, cty := v.T, pt.Elem()
	for _, fi := range index {
		s, ok := cty.Underlying().(*types.Struct)
		if !ok {
			return e.fail("&x.f through a pointer-typed embedded field is unsupported")
		}
		cur = fmt.Sprintf("(fieldaddr %d %s)", fieldAddrID(cty, s, fi), cur)
		cty = s.Field(fi).Type()
	}
	return Val{T: cur}, types.NewPointer(cty)
}
