package main

// Sorts and SMT naming: how Go types map to SMT-LIB sorts, heap arrays and zero values.
//
// Integers: default mode maps every Go integer type to Int with exact wrap functions;
// bv mode (per function, `arith bv64`) maps them to bit-vectors of their width.

import (
	"hash/fnv"
	"fmt"
	"go/types"
	"sort"
	"strings"
)

type Term = string

// Sorts collects declarations that a VC needs (datatypes, uninterpreted sorts, functions).
type Sorts struct {
	bv        bool              // integer mode of the VC being built
	ixArith   bool              // the function does index arithmetic across slice offsets
	decls     []string          // sort / datatype / function declarations in order
	declared  map[string]bool   // names already declared
	structs   map[string]*types.Struct
	typeTags  map[string]int    // dynamic type tag per concrete type string
	tagTypes  []types.Type
	strLits   map[string]string // literal -> const name
	strOrder  []string
	axioms    []string
	repoPaths func(string) bool // is this package path part of the repository?
}

func newSorts(bv bool, inRepo func(string) bool) *Sorts {
	return &Sorts{bv: bv, declared: map[string]bool{}, structs: map[string]*types.Struct{},
		typeTags: map[string]int{}, strLits: map[string]string{}, repoPaths: inRepo}
}

// fileSafe: sanitize for use as a file name (names of anonymous struct types can exceed the file system's limit).
func fileSafe(s string) string {
	n := sanitize(s)
	if len(n) > 160 {
		h := fnv.New32a()
		h.Write([]byte(n))
		n = fmt.Sprintf("%s_%08x", n[:120], h.Sum32())
	}
	return n
}

func sanitize(s string) string {
	var b strings.Builder
	for _, r := range s {
		switch {
		case r >= 'a' && r <= 'z', r >= 'A' && r <= 'Z', r >= '0' && r <= '9', r == '_':
			b.WriteRune(r)
		case r == '*':
			b.WriteString("P")
		case r == '[':
			b.WriteString("L")
		case r == ']':
			b.WriteString("R")
		case r == '.' || r == '/':
			b.WriteString("_")
		default:
			b.WriteString("_")
		}
	}
	return b.String()
}

// typeKey is a short stable name for a type, used in heap array names.
func typeKey(t types.Type) string {
	switch t := t.(type) {
	case *types.Named:
		o := t.Obj()
		if o.Pkg() != nil {
			return sanitize(o.Pkg().Name() + "." + o.Name())
		}
		return sanitize(o.Name())
	case *types.Alias:
		return typeKey(types.Unalias(t))
	case *types.Pointer:
		return "P" + typeKey(t.Elem())
	case *types.Slice:
		return "Sl" + typeKey(t.Elem())
	case *types.Array:
		if t.Len() == -2 {
			return "Set" + typeKey(t.Elem())
		}
		return fmt.Sprintf("A%d%s", t.Len(), typeKey(t.Elem()))
	case *types.Map:
		return "M" + typeKey(t.Key()) + "_" + typeKey(t.Elem())
	case *types.Chan:
		return "Ch" + typeKey(t.Elem())
	case *types.Basic:
		return sanitize(t.Name())
	case *types.Interface:
		if t.Empty() {
			return "any"
		}
		return "iface" + sanitize(t.String())
	case *types.Struct:
		return "anon" + sanitize(t.String())
	case *types.Signature:
		return "func"
	case *types.Tuple:
		return "tuple"
	}
	return sanitize(t.String())
}

func isInt(t types.Type) bool {
	b, ok := t.Underlying().(*types.Basic)
	return ok && b.Info()&types.IsInteger != 0
}
func isUnsigned(t types.Type) bool {
	b, ok := t.Underlying().(*types.Basic)
	return ok && b.Info()&types.IsUnsigned != 0
}
func isString(t types.Type) bool {
	b, ok := t.Underlying().(*types.Basic)
	return ok && b.Info()&types.IsString != 0
}
func isBool(t types.Type) bool {
	b, ok := t.Underlying().(*types.Basic)
	return ok && b.Info()&types.IsBoolean != 0
}
func isFloat(t types.Type) bool {
	b, ok := t.Underlying().(*types.Basic)
	return ok && b.Info()&types.IsFloat != 0
}

func intWidth(t types.Type) int {
	b := t.Underlying().(*types.Basic)
	switch b.Kind() {
	case types.Int8, types.Uint8:
		return 8
	case types.Int16, types.Uint16:
		return 16
	case types.Int32, types.Uint32:
		return 32
	}
	return 64 // int, uint, int64, uint64, uintptr, untyped
}

// isRefLike: types represented by an Int reference (nil = 0).
func isRefLike(t types.Type) bool {
	switch t.Underlying().(type) {
	case *types.Pointer, *types.Map, *types.Chan, *types.Signature:
		return true
	case *types.Basic:
		return t.Underlying().(*types.Basic).Kind() == types.UnsafePointer
	}
	return false
}

// opaqueStruct: struct types from outside the repository WITHOUT exported fields (sync.Mutex,
// time.Time, bytes.Buffer, bufio.Reader, ...) are uninterpreted sorts: their content is only reachable
// through their methods. Library structs with exported fields (http.Request, http.Response, net.TCPAddr,
// nsq.Message, ...) are ordinary memory: their fields can be read and written directly by the code.
func (s *Sorts) opaqueStruct(t types.Type) bool {
	n, ok := types.Unalias(t).(*types.Named)
	if !ok {
		return false
	}
	st, ok := n.Underlying().(*types.Struct)
	if !ok {
		return false
	}
	if n.Obj().Pkg() == nil {
		return false
	}
	if s.repoPaths(n.Obj().Pkg().Path()) {
		return false
	}
	for i := 0; i < st.NumFields(); i++ {
		if st.Field(i).Exported() {
			return false
		}
	}
	return true
}

func (s *Sorts) sortOf(t types.Type) string {
	t = types.Unalias(t)
	switch u := t.Underlying().(type) {
	case *types.Basic:
		switch {
		case u.Info()&types.IsInteger != 0:
			if s.bv {
				return fmt.Sprintf("(_ BitVec %d)", intWidth(t))
			}
			return "Int"
		case u.Info()&types.IsBoolean != 0:
			return "Bool"
		case u.Info()&types.IsString != 0:
			return "Str"
		case u.Info()&types.IsFloat != 0:
			return "Real"
		case u.Kind() == types.UnsafePointer:
			return "Int"
		case u.Kind() == types.UntypedNil:
			return "Int"
		}
		return "Int"
	case *types.Pointer, *types.Map, *types.Chan, *types.Signature:
		return "Int"
	case *types.Slice:
		return "Slice"
	case *types.Array:
		if u.Len() == -2 {
			return "(Array " + s.sortOf(u.Elem()) + " Bool)" // spec-only set[T]
		}
		if u.Len() < 0 {
			// spec-only sequence type seq[T]: uninterpreted sort with an element accessor
			name := "Seq_" + typeKey(u.Elem())
			if !s.declared[name] {
				s.declared[name] = true
				s.decls = append(s.decls, fmt.Sprintf("(declare-sort %s 0)", name))
				s.decls = append(s.decls, fmt.Sprintf("(declare-fun seq_at_%s (%s Int) %s)", typeKey(u.Elem()), name, s.sortOf(u.Elem())))
			}
			return name
		}
		return "(Array Int " + s.sortOf(u.Elem()) + ")"
	case *types.Interface:
		return "Iface"
	case *types.Struct:
		if s.opaqueStruct(t) {
			name := "O_" + typeKey(t)
			if !s.declared[name] {
				s.declared[name] = true
				s.decls = append(s.decls, fmt.Sprintf("(declare-sort %s 0)", name))
				s.decls = append(s.decls, fmt.Sprintf("(declare-const zero_%s %s)", name, name))
			}
			return name
		}
		name := "S_" + typeKey(t)
		if !s.declared[name] {
			s.declared[name] = true
			s.structs[name] = u
			// fields first (may declare nested sorts)
			var fs []string
			for i := 0; i < u.NumFields(); i++ {
				f := u.Field(i)
				fs = append(fs, fmt.Sprintf("(%s_%s %s)", name, sanitize(f.Name()), s.sortOf(f.Type())))
			}
			if len(fs) == 0 {
				fs = append(fs, fmt.Sprintf("(%s__dummy Int)", name))
			}
			s.decls = append(s.decls, fmt.Sprintf("(declare-datatypes ((%s 0)) (((mk_%s %s))))", name, name, strings.Join(fs, " ")))
		}
		return name
	case *types.Tuple:
		return "Int"
	}
	return "Int"
}

func (s *Sorts) zero(t types.Type) Term {
	t = types.Unalias(t)
	switch u := t.Underlying().(type) {
	case *types.Basic:
		switch {
		case u.Info()&types.IsInteger != 0:
			return s.intLit("0", t)
		case u.Info()&types.IsBoolean != 0:
			return "false"
		case u.Info()&types.IsString != 0:
			return "str_empty"
		case u.Info()&types.IsFloat != 0:
			return "0.0"
		}
		return "0"
	case *types.Slice:
		return "slice_nil"
	case *types.Array:
		if u.Len() == -2 {
			return "((as const (Array " + s.sortOf(u.Elem()) + " Bool)) false)"
		}
		return s.constArray(s.sortOf(u.Elem()), s.zero(u.Elem()))
	case *types.Interface:
		return "iface_nil"
	case *types.Struct:
		name := s.sortOf(t)
		if strings.HasPrefix(name, "O_") {
			return "zero_" + name
		}
		var fs []string
		for i := 0; i < u.NumFields(); i++ {
			fs = append(fs, s.zero(u.Field(i).Type()))
		}
		if len(fs) == 0 {
			fs = append(fs, "0")
		}
		return fmt.Sprintf("(mk_%s %s)", name, strings.Join(fs, " "))
	}
	return "0"
}

// intLit renders an integer literal (decimal string, possibly negative) of Go type t.
func (s *Sorts) intLit(dec string, t types.Type) Term {
	if s.bv {
		w := intWidth(t)
		neg := strings.HasPrefix(dec, "-")
		d := strings.TrimPrefix(dec, "-")
		if neg {
			return fmt.Sprintf("(bvneg (_ bv%s %d))", d, w)
		}
		return fmt.Sprintf("(_ bv%s %d)", d, w)
	}
	if strings.HasPrefix(dec, "-") {
		return "(- " + dec[1:] + ")"
	}
	return dec
}

// tagOf assigns a positive dynamic-type tag to a concrete type.
func (s *Sorts) tagOf(t types.Type) Term {
	t = types.Unalias(t)
	k := t.String()
	if id, ok := s.typeTags[k]; ok {
		return fmt.Sprint(id)
	}
	id := len(s.typeTags) + 1
	s.typeTags[k] = id
	s.tagTypes = append(s.tagTypes, t)
	return fmt.Sprint(id)
}

// box/unbox for interface payloads whose sort is not Int.
func (s *Sorts) box(v Term, t types.Type) Term {
	so := s.sortOf(t)
	if so == "Int" {
		return v
	}
	fn := "box_" + sanitize(so)
	if !s.declared[fn] {
		s.declared[fn] = true
		s.decls = append(s.decls, fmt.Sprintf("(declare-fun %s (%s) Int)", fn, so))
		s.decls = append(s.decls, fmt.Sprintf("(declare-fun un%s (Int) %s)", fn, so))
		s.axioms = append(s.axioms, fmt.Sprintf("(forall ((x %s)) (! (= (un%s (%s x)) x) :pattern ((%s x))))", so, fn, fn, fn))
	}
	return fmt.Sprintf("(%s %s)", fn, v)
}
func (s *Sorts) unbox(v Term, t types.Type) Term {
	so := s.sortOf(t)
	if so == "Int" {
		return v
	}
	s.box("dummy", t) // ensure declared
	return fmt.Sprintf("(unbox_%s %s)", sanitize(so), v)
}

func (s *Sorts) strLit(lit string) Term {
	if lit == "" {
		return "str_empty"
	}
	if n, ok := s.strLits[lit]; ok {
		return n
	}
	n := fmt.Sprintf("strlit_%d", len(s.strLits))
	s.strLits[lit] = n
	s.strOrder = append(s.strOrder, lit)
	return n
}

// ixAxiom: `ix o k` is the absolute index o+k. Functions that never do index arithmetic across
// offsets (re-slicing at a non-zero bound, copy, append, string conversion) only need injectivity,
// which keeps the arithmetic out of the quantifier instantiation (much faster, and weaker = sound).
func (s *Sorts) ixAxiom(weak bool) string {
	if !weak {
		return "(assert (forall ((o Int) (k Int)) (! (= (ix o k) (+ o k)) :pattern ((ix o k)))))\n"
	}
	return "(assert (forall ((o Int) (k Int)) (! (= (unix o (ix o k)) k) :pattern ((ix o k)))))\n"
}

// prelude returns the fixed declarations every VC starts with.
func (s *Sorts) prelude() string {
	var b strings.Builder
	b.WriteString(`(declare-sort Str 0)
(declare-const str_empty Str)
(declare-fun strlen (Str) Int)
(declare-fun str_at (Str Int) Int)
(declare-fun str_cat (Str Str) Str)
(declare-fun str_lt (Str Str) Bool)
(declare-fun fnname_of (Int) Str)
(declare-datatypes ((Slice 0)) (((mk_slice (sbase Int) (soff Int) (slen Int) (scap Int)))))
(define-fun slice_nil () Slice (mk_slice 0 0 0 0))
(declare-datatypes ((Iface 0)) (((mk_iface (ityp Int) (ival Int)))))
(define-fun iface_nil () Iface (mk_iface 0 0))
(declare-fun ix (Int Int) Int)
(declare-fun fieldaddr (Int Int) Int)
(declare-fun unix (Int Int) Int)
;IXAXIOM
(define-fun tdiv ((a Int) (b Int)) Int (ite (>= a 0) (ite (> b 0) (div a b) (- (div a (- b)))) (ite (> b 0) (- (div (- a) b)) (div (- a) (- b)))))
(define-fun tmod ((a Int) (b Int)) Int (- a (* b (tdiv a b))))
(define-fun wrap_u8 ((x Int)) Int (mod x 256))
(define-fun wrap_u16 ((x Int)) Int (mod x 65536))
(define-fun wrap_u32 ((x Int)) Int (mod x 4294967296))
(define-fun wrap_u64 ((x Int)) Int (mod x 18446744073709551616))
(define-fun wrap_i8 ((x Int)) Int (- (mod (+ x 128) 256) 128))
(define-fun wrap_i16 ((x Int)) Int (- (mod (+ x 32768) 65536) 32768))
(define-fun wrap_i32 ((x Int)) Int (- (mod (+ x 2147483648) 4294967296) 2147483648))
(define-fun wrap_i64 ((x Int)) Int (- (mod (+ x 9223372036854775808) 18446744073709551616) 9223372036854775808))
`)
	return b.String()
}

func (s *Sorts) strLitDecls() string {
	var b strings.Builder
	names := []string{"str_empty"}
	for _, lit := range s.strOrder {
		n := s.strLits[lit]
		fmt.Fprintf(&b, "(declare-const %s Str)\n(assert (= (strlen %s) %d))\n", n, n, len(lit))
		if len(lit) <= 32 {
			// the bytes of a short literal (so that `string(buf) == "  V2"` says what buf holds)
			for i := 0; i < len(lit); i++ {
				fmt.Fprintf(&b, "(assert (= (str_at %s %d) %d))\n", n, i, lit[i])
			}
		}
		names = append(names, n)
	}
	b.WriteString("(assert (= (strlen str_empty) 0))\n")
	if len(names) > 1 {
		fmt.Fprintf(&b, "(assert (distinct %s))\n", strings.Join(names, " "))
	}
	return b.String()
}

// range predicate of an integer type over a term (int mode only).
func (s *Sorts) inRange(v Term, t types.Type) Term {
	if s.bv || !isInt(t) {
		return "true"
	}
	lo, hi := intBounds(t)
	return fmt.Sprintf("(and (<= %s %s) (<= %s %s))", lo, v, v, hi)
}

func intBounds(t types.Type) (string, string) {
	w := intWidth(t)
	if isUnsigned(t) {
		switch w {
		case 8:
			return "0", "255"
		case 16:
			return "0", "65535"
		case 32:
			return "0", "4294967295"
		}
		return "0", "18446744073709551615"
	}
	switch w {
	case 8:
		return "(- 128)", "127"
	case 16:
		return "(- 32768)", "32767"
	case 32:
		return "(- 2147483648)", "2147483647"
	}
	return "(- 9223372036854775808)", "9223372036854775807"
}

func wrapFn(t types.Type) string {
	w := intWidth(t)
	if isUnsigned(t) {
		return fmt.Sprintf("wrap_u%d", w)
	}
	return fmt.Sprintf("wrap_i%d", w)
}

func sortedKeys[V any](m map[string]V) []string {
	ks := make([]string, 0, len(m))
	for k := range m {
		ks = append(ks, k)
	}
	sort.Strings(ks)
	return ks
}

// ixTerm: absolute index of element k of a slice with offset off. The uninterpreted `ix`
// (defined by an axiom as off+k) keeps arithmetic out of quantifier patterns.
func ixTerm(off, k Term) Term {
	if off == "0" {
		return k
	}
	return "(ix " + off + " " + k + ")"
}

// constArray: an Int-indexed array holding v everywhere. cvc5 accepts `as const` only for value
// literals, so other defaults get a declared array with a defining axiom.
func (s *Sorts) constArray(elemSort string, v Term) Term {
	lit := true
	for _, bad := range []string{"str_empty", "zero_O_", "strlit_", "iface_nil", "slice_nil", "zarr_"} {
		if strings.Contains(v, bad) {
			lit = false
		}
	}
	if lit {
		return fmt.Sprintf("((as const (Array Int %s)) %s)", elemSort, v)
	}
	name := "zarr_" + sanitize(elemSort)
	if !s.declared[name] {
		s.declared[name] = true
		s.decls = append(s.decls, fmt.Sprintf("(declare-const %s (Array Int %s))", name, elemSort))
		s.axioms = append(s.axioms, fmt.Sprintf("(forall ((zi Int)) (! (= (select %s zi) %s) :pattern ((select %s zi))))", name, v, name))
	}
	return name
}

// sel builds (select arr idx) with a peephole: (select (store a i v) i) = v for syntactically equal i.
func sel(arr, idx Term) Term {
	if strings.HasPrefix(arr, "(store ") {
		// split top-level arguments of the store
		args := splitSexp(arr[len("(store ") : len(arr)-1])
		if len(args) == 3 && args[1] == idx {
			return args[2]
		}
	}
	return "(select " + arr + " " + idx + ")"
}

func splitSexp(s string) []string {
	var out []string
	depth, start := 0, -1
	for i := 0; i < len(s); i++ {
		c := s[i]
		switch {
		case c == '(':
			if depth == 0 && start < 0 {
				start = i
			}
			depth++
		case c == ')':
			depth--
			if depth == 0 {
				out = append(out, s[start:i+1])
				start = -1
			}
		case c == ' ' && depth == 0:
			if start >= 0 {
				out = append(out, s[start:i])
				start = -1
			}
		default:
			if depth == 0 && start < 0 {
				start = i
			}
		}
	}
	if start >= 0 {
		out = append(out, s[start:])
	}
	return out
}
