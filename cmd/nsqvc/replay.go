package main

// Replay of solver counterexamples against the real code (go test -overlay; nothing is written to /repo).

import (
	"encoding/json"
	"fmt"
	"os"
	"os/exec"
	"path/filepath"
	"regexp"
	"strings"
	"time"
)

type replayEntry struct {
	Obligation string `json:"obligation"`
	Dir        string `json:"dir"`
	File       string `json:"file"`
	Test       string `json:"test"`
	What       string `json:"what"`
}

func replayIndex() []replayEntry {
	var es []replayEntry
	data, err := os.ReadFile(filepath.Join(verifDir, "replay", "index.json"))
	if err == nil {
		json.Unmarshal(data, &es)
	}
	return es
}

// writeReplay writes the replay file of a failed obligation and, where an adapter exists, runs the
// real code on the counterexample. Returns whether the failure was reproduced on the real code.
func writeReplay(e *Engine, t *fnTrans, o *Obligation, path string, noReplay bool) bool {
	var b strings.Builder
	fmt.Fprintf(&b, "obligation: %s\nfunction:   %s\nkind:       %s\nclause:     %s\nlocation:   %s\nverdict:    %s (%s)\nvc:         %s\n\n", o.Name, o.Fn, o.Kind, o.Desc, o.Pos, o.Result, o.Solver, o.VCFile)
	for _, s := range sortedKeys(o.Outputs) {
		fmt.Fprintf(&b, "--- %s ---\n%s\n", s, o.Outputs[s])
	}
	reproduced := false
	var entry *replayEntry
	for _, re := range replayIndex() {
		if m, _ := regexp.MatchString(re.Obligation, o.Name); m {
			r := re
			entry = &r
			break
		}
	}
	switch {
	case noReplay:
		b.WriteString("\nreplay skipped (-noreplay)\n")
	case entry != nil:
		text, ok := runReplay(e, entry, o)
		b.WriteString("\n--- replay on the real code: " + entry.What + " ---\n" + text + "\n")
		reproduced = ok
	case o.Result == "sat":
		b.WriteString("\nthe solver produced a model (above) but no replay adapter exists for this function: no-failing-input-found\n")
	default:
		b.WriteString("\nno model from any solver (quantified or undecided goal): no-failing-input-found\n")
	}
	os.WriteFile(path, []byte(b.String()), 0o644)
	return reproduced
}

// runReplay injects the adapter test into the package with -overlay and runs it against /repo's
// working tree. The adapter fails (panic, wrong result) exactly when the counterexample reproduces.
func runReplay(e *Engine, re *replayEntry, o *Obligation) (string, bool) {
	src := filepath.Join(verifDir, "replay", re.File)
	scratch, err := os.MkdirTemp("", "nsqvc-replay")
	if err != nil {
		return err.Error(), false
	}
	defer os.RemoveAll(scratch)
	target := filepath.Join(e.repo, re.Dir, "zz_verif_replay_test.go")
	ov := map[string]map[string]string{"Replace": {target: src}}
	data, _ := json.Marshal(ov)
	ovf := filepath.Join(scratch, "overlay.json")
	os.WriteFile(ovf, data, 0o644)
	cmd := exec.Command("go", "test", "-overlay", ovf, "-vet=off", "-count=1", "-timeout", "60s", "-run", "^"+re.Test+"$", "./"+re.Dir+"/")
	cmd.Dir = e.repo
	cmd.Env = append(os.Environ(), "GOFLAGS=-mod=mod", "GOPROXY=off", "GOSUMDB=off", "GOTOOLCHAIN=local", "VERIF_MODEL="+o.Model, "TMPDIR="+scratch)
	start := time.Now()
	out, err := cmd.CombinedOutput()
	text := string(out)
	if len(text) > 6000 {
		text = text[:6000] + "…"
	}
	text = fmt.Sprintf("$ go test -overlay … -run ^%s$ ./%s/   (%.1fs)\n%s", re.Test, re.Dir, time.Since(start).Seconds(), text)
	if err != nil && (strings.Contains(text, "--- FAIL") || strings.Contains(text, "panic:")) {
		return text + "\nREPRODUCED on the real code", true
	}
	return text + "\nnot reproduced", false
}
