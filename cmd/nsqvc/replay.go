package main

// Replay of solver counterexamples against the real code (go test -overlay; nothing is written to /repo).

import (
	"fmt"
	"os"
	"strings"
)

// writeReplay writes the replay file of a failed obligation and, where an adapter exists and the
// solver produced a model, runs the real function on the model's inputs. Returns whether the
// failure was reproduced on the real code.
func writeReplay(e *Engine, t *fnTrans, o *Obligation, path string, noReplay bool) bool {
	var b strings.Builder
	fmt.Fprintf(&b, "obligation: %s\nfunction:   %s\nkind:       %s\nclause:     %s\nlocation:   %s\nverdict:    %s (%s)\nvc:         %s\n\n", o.Name, o.Fn, o.Kind, o.Desc, o.Pos, o.Result, o.Solver, o.VCFile)
	for _, s := range sortedKeys(o.Outputs) {
		fmt.Fprintf(&b, "--- %s ---\n%s\n", s, o.Outputs[s])
	}
	reproduced := false
	if o.Result == "sat" && t != nil && t.fn != nil && !noReplay {
		text, ok := replayGeneric(e, t, o)
		b.WriteString("\n--- replay on the real code ---\n" + text + "\n")
		reproduced = ok
	} else if o.Result != "sat" {
		b.WriteString("\nno model from any solver (quantified or undecided goal): no-failing-input-found\n")
	}
	os.WriteFile(path, []byte(b.String()), 0o644)
	return reproduced
}

func replayGeneric(e *Engine, t *fnTrans, o *Obligation) (string, bool) {
	return "no replay adapter for this function signature", false
}
