package main

// Contract files: comment-only Go files in /repo (build tag verif) and trusted
// library specs in /verif/lib/trusted. Only lines starting with `//@` (or `// @`) count.

import (
	"fmt"
	"os"
	"path/filepath"
	"regexp"
	"strconv"
	"strings"
)

type Clause struct {
	Kind string // requires, ensures, invariant, decreases, guarantee, assert
	Uses []Expr // opt-in axioms (name, or name(args) = explicit instance) available to the obligations of this clause
	Name string
	Src  string
	Expr Expr
	File string
	Line int
}

type LoopSpec struct {
	Ordinal    int
	Invariants []*Clause
	Assumes    []*Clause // assumed at the loop head, never checked (reported)
	Exits      []*Clause // obligations on every edge that leaves the loop (exhaustion, break, goto out; not return)
	BackEdges  []*Clause // obligations on every back edge of the loop only (not assumed at the head): "every iteration did X"
	Decreases  *Clause
	Unroll     int
}

type FuncContract struct {
	PkgPath  string // package the contract file belongs to ("" for extern)
	Sig      string // signature text as written
	RecvName string
	RecvType string // e.g. "*Channel" or "Channel"; "" for functions
	Name     string
	Params   []string
	Results  []string
	Props    []string
	Arith    string
	Requires []*Clause
	Ensures  []*Clause
	Modifies []string
	HasMod   bool
	Loops    map[int]*LoopSpec
	Ghosts   []QVar // ghost parameters: arbitrary but fixed values the clauses may mention
	Insts    map[string][]Expr // "callee.ghost" -> explicit instantiations at call sites in this function
	OnReturn []*GhostSet       // ghost updates that take effect when the function returns
	Keeps    []string          // free ghosts this function leaves unchanged (checked; callers keep them across the call)
	OnSpawn  []*GhostSet       // ghost updates that take effect at a `go f(...)` statement naming this function
	LockAssumes []*Clause      // assumed right after each lock acquisition in this function (listed as assumptions)
	Chans    []string // `chans a, b`: the only channels this function sends / receives / closes on (checked; callers keep every other channel's ghosts)
	HasChans bool
	NoChan   bool // promises (and is checked) not to send/receive on any channel; otherwise callers lose all channel counters
	Trusted  bool // contract assumed, body not verified
	MayPanic bool
	NoReturn bool // `noreturn`: the function never returns (ends in os.Exit): no reachable return is expected, the vacuity guard covers its calls instead
	Extern   bool
	Key      string // extern key, e.g. "(*sync.Mutex).Lock" or "time.Now"
	File     string
	Line     int
}

// GhostSet: `onreturn [cond ==>] g := expr`. Ghost state is specification-only: the update is part
// of the function's meaning for its callers (nothing to prove in the body).
type GhostSet struct {
	Cond Expr
	Var  string
	Val  Expr
	Src  string
}

type Pred struct {
	Name   string
	Params []QVar
	Result string // "" for predicates (Bool); type text for spec functions
	Body   Expr   // nil for uninterpreted spec functions
	Pkg    string
}

type GhostVar struct {
	Name, Type, Pkg string
	Free            bool // `ghost[free]`: outside every frame (not checked in `modifies`, unknown after any call of a repository function)
}

type LockSpec struct {
	Pkg        string
	Type       string // struct type name
	Field      string // mutex field name (embedded: type name e.g. "Mutex")
	Guards     []string
	Invariants []*Clause
	Guarantees []*Clause
	Assumes    []*Clause // assumed at acquisition, never checked (listed as assumptions)
	Ghosts     []QVar    // arbitrary values the guarantee clauses may mention
}

type Lemma struct {
	Name   string
	Clause *Clause
	Props  []string
	Axiom  bool
	OptIn  bool
	Pkg    string
}

type Contracts struct {
	Funcs   []*FuncContract
	Externs map[string]*FuncContract
	Preds   map[string]*Pred
	Ghosts  map[string]*GhostVar
	Locks   []*LockSpec
	Lemmas  []*Lemma
	Benign  []string
	Immut   map[string]map[string]bool // pkgpath -> "Type.field"
	Ctors   map[string]bool            // display names of start-up functions that may write immutable fields
	GhostGroups [][]string             // ghosts that always change together: naming one in `modifies` names all
	ModSets  map[string][]string       // `modset name := items`: a named list of modifies items (may name other modsets)
	ChanInvs map[string]*ChanInv       // pkgpath.Type.field -> invariant on every value sent into that channel
	Files   []string
}

func newContracts() *Contracts {
	return &Contracts{Externs: map[string]*FuncContract{}, Preds: map[string]*Pred{}, Ghosts: map[string]*GhostVar{}, Immut: map[string]map[string]bool{}, Ctors: map[string]bool{}, ChanInvs: map[string]*ChanInv{}, ModSets: map[string][]string{}}
}

var topKeywords = map[string]bool{"func": true, "extern": true, "pred": true, "ghost": true, "lock": true,
	"lemma": true, "axiom": true, "benign": true, "fn": true, "immutable": true, "constructors": true, "ghostgroup": true, "chaninv": true, "modset": true}
var clauseKeywords = map[string]bool{"props": true, "arith": true, "requires": true, "ensures": true,
	"modifies": true, "loop": true, "invariant": true, "decreases": true, "unroll": true, "trusted": true,
	"maypanic": true, "noreturn": true, "guarantee": true, "guards": true, "ghostparam": true, "inst": true, "onreturn": true, "onspawn": true, "lockassume": true, "assume": true, "nochan": true, "keeps": true, "exit": true, "chans": true, "backedge": true}

type logicalLine struct {
	kw   string
	name string // [name]
	rest string
	line int
}

var chanInvTypeRe = regexp.MustCompile(`^\s*chan\[([^\]]+)\]\s*\(\s*([A-Za-z_][A-Za-z0-9_]*)\s*\)\s*:=\s*(.*)$`)

var chanInvRe = regexp.MustCompile(`^\s*([A-Za-z_][A-Za-z0-9_]*\.[A-Za-z_][A-Za-z0-9_]*)\s*\(\s*([A-Za-z_][A-Za-z0-9_]*)\s*\)\s*:=\s*(.*)$`)

// ChanInv: `chaninv Type.field(v) := expr` - every value sent into the channel stored in that field satisfies
// expr (obligation at each send), so every value received from it does (assumed at each receive). The
// expression may only talk about v itself and immutable fields (it is evaluated in different states).
type ChanInv struct {
	Key, Short, Param, Src, Pkg, File string
	ElemText                          string // chaninv chan[T]: the element type as written (resolved in Pkg)
	Expr                              Expr
	Line                              int
}

var kwRe = regexp.MustCompile(`^([a-z]+)(\[[^\]]*\])?(\s|$)`)
var kwUsesRe = regexp.MustCompile(`^([a-z]+)\[([^;\]]*);(.*?)\]\s`)

func readLogical(path string) ([]logicalLine, error) {
	data, err := os.ReadFile(path)
	if err != nil {
		return nil, err
	}
	var out []logicalLine
	for i, raw := range strings.Split(string(data), "\n") {
		l := strings.TrimSpace(raw)
		switch {
		case strings.HasPrefix(l, "//@"):
			l = l[3:]
		case strings.HasPrefix(l, "// @"):
			l = l[4:]
		default:
			continue
		}
		l = strings.TrimSpace(l)
		if l == "" {
			continue
		}
		if m := kwUsesRe.FindStringSubmatch(l); m != nil && clauseKeywords[m[1]] {
			// keyword[name; uses a(x[i]), b] — the uses list may contain brackets
			end := usesEnd(l)
			if end > 0 {
				inner := l[len(m[1])+1 : end]
				out = append(out, logicalLine{kw: m[1], name: inner, rest: strings.TrimSpace(l[end+1:]), line: i + 1})
				continue
			}
		}
		if m := kwRe.FindStringSubmatch(l); m != nil && (topKeywords[m[1]] || clauseKeywords[m[1]]) {
			name := strings.Trim(m[2], "[]")
			out = append(out, logicalLine{kw: m[1], name: name, rest: strings.TrimSpace(l[len(m[0]):]), line: i + 1})
			continue
		}
		if len(out) == 0 {
			return nil, fmt.Errorf("%s:%d: continuation line without an item", path, i+1)
		}
		out[len(out)-1].rest += "\n" + l
	}
	return out, nil
}

func splitTopLevel(s string, sep byte) []string {
	var parts []string
	depth := 0
	start := 0
	for i := 0; i < len(s); i++ {
		switch s[i] {
		case '(', '[', '{':
			depth++
		case ')', ']', '}':
			depth--
		default:
			if s[i] == sep && depth == 0 {
				parts = append(parts, s[start:i])
				start = i + 1
			}
		}
	}
	parts = append(parts, s[start:])
	return parts
}

// matching close paren index for s[open]=='('
func matchParen(s string, open int) int {
	depth := 0
	for i := open; i < len(s); i++ {
		switch s[i] {
		case '(':
			depth++
		case ')':
			depth--
			if depth == 0 {
				return i
			}
		}
	}
	return -1
}

func paramNames(list string) []string {
	list = strings.TrimSpace(list)
	if list == "" {
		return nil
	}
	var names []string
	for _, p := range splitTopLevel(list, ',') {
		p = strings.TrimSpace(p)
		if p == "" {
			continue
		}
		f := strings.Fields(p)
		names = append(names, f[0])
	}
	return names
}

// parseSig parses "(recv *T) Name(a, b T) (r T, err error)" or "Name(a T) T".
func parseSig(sig string, fc *FuncContract) error {
	s := strings.TrimSpace(sig)
	if strings.HasPrefix(s, "(") {
		c := matchParen(s, 0)
		if c < 0 {
			return fmt.Errorf("bad receiver in %q", sig)
		}
		f := strings.Fields(s[1:c])
		if len(f) == 2 {
			fc.RecvName, fc.RecvType = f[0], f[1]
		} else if len(f) == 1 {
			fc.RecvName, fc.RecvType = "_", f[0]
		} else {
			return fmt.Errorf("bad receiver in %q", sig)
		}
		s = strings.TrimSpace(s[c+1:])
	}
	o := strings.Index(s, "(")
	if o < 0 {
		return fmt.Errorf("no parameter list in %q", sig)
	}
	fc.Name = strings.TrimSpace(s[:o])
	c := matchParen(s, o)
	if c < 0 {
		return fmt.Errorf("unbalanced parens in %q", sig)
	}
	fc.Params = paramNames(s[o+1 : c])
	res := strings.TrimSpace(s[c+1:])
	if strings.HasPrefix(res, "(") {
		c2 := matchParen(res, 0)
		inner := res[1:c2]
		// named results iff first piece has two fields
		pieces := splitTopLevel(inner, ',')
		named := false
		for _, p := range pieces {
			if len(strings.Fields(strings.TrimSpace(p))) >= 2 {
				named = true
			}
		}
		if fc.Extern {
			named = true
		}
		for i, p := range pieces {
			if named {
				fc.Results = append(fc.Results, strings.Fields(strings.TrimSpace(p))[0])
			} else {
				fc.Results = append(fc.Results, fmt.Sprintf("result%d", i))
			}
		}
	} else if res != "" {
		fc.Results = []string{"result"}
	}
	return nil
}

func (cs *Contracts) loadFile(path, pkgPath string) error {
	lines, err := readLogical(path)
	if err != nil {
		return err
	}
	cs.Files = append(cs.Files, path)
	var curFunc *FuncContract
	var curLoop *LoopSpec
	var curLock *LockSpec
	var curLemma *Lemma
	mkClause := func(l logicalLine) (*Clause, error) {
		e, err := parseSpec(l.rest)
		if err != nil {
			return nil, fmt.Errorf("%s:%d: %v", path, l.line, err)
		}
		c := &Clause{Kind: l.kw, Name: l.name, Src: strings.Join(strings.Fields(l.rest), " "), Expr: e, File: path, Line: l.line}
		if i := strings.Index(c.Name, ";"); i >= 0 {
			rest := strings.TrimSpace(c.Name[i+1:])
			c.Name = strings.TrimSpace(c.Name[:i])
			rest = strings.TrimSpace(strings.TrimPrefix(rest, "uses"))
			for _, u := range splitTopLevel(rest, ',') {
				if u = strings.TrimSpace(u); u != "" {
					ue, err := parseSpec(u)
					if err != nil {
						return nil, fmt.Errorf("%s:%d: uses: %v", path, l.line, err)
					}
					c.Uses = append(c.Uses, ue)
				}
			}
		}
		return c, nil
	}
	for _, l := range lines {
		if topKeywords[l.kw] {
			curFunc, curLoop, curLock, curLemma = nil, nil, nil, nil
		}
		switch l.kw {
		case "func", "extern":
			fc := &FuncContract{PkgPath: pkgPath, Sig: l.rest, Loops: map[int]*LoopSpec{}, File: path, Line: l.line}
			if l.kw == "extern" {
				// extern <key>(params) (results)
				fc.Extern = true
				fc.Trusted = true
				idx := externParamStart(l.rest)
				if idx < 0 {
					return fmt.Errorf("%s:%d: bad extern %q", path, l.line, l.rest)
				}
				fc.Key = strings.TrimSpace(l.rest[:idx])
				if err := parseSig("X"+l.rest[idx:], fc); err != nil {
					return fmt.Errorf("%s:%d: %v", path, l.line, err)
				}
				fc.Name = fc.Key
				mapKey := fc.Key
				if strings.HasPrefix(l.name, "in ") {
					// extern[in <pkgpath>]: applies only to calls made from functions of that package
					mapKey = fc.Key + "@" + strings.TrimSpace(strings.TrimPrefix(l.name, "in "))
				}
				if other, dup := cs.Externs[mapKey]; dup {
					return fmt.Errorf("%s:%d: second extern contract for %s (first at %s:%d)", path, l.line, mapKey, other.File, other.Line)
				}
				cs.Externs[mapKey] = fc
			} else {
				if err := parseSig(l.rest, fc); err != nil {
					return fmt.Errorf("%s:%d: %v", path, l.line, err)
				}
				cs.Funcs = append(cs.Funcs, fc)
			}
			curFunc = fc
		case "pred", "fn":
			// pred name(a T, b T) := expr      fn name(a T) R := expr | fn name(a T) R
			o := strings.Index(l.rest, "(")
			c := matchParen(l.rest, o)
			if o < 0 || c < 0 {
				return fmt.Errorf("%s:%d: bad %s", path, l.line, l.kw)
			}
			p := &Pred{Name: strings.TrimSpace(l.rest[:o]), Pkg: pkgPath}
			for _, piece := range splitTopLevel(l.rest[o+1:c], ',') {
				f := strings.Fields(strings.TrimSpace(piece))
				if len(f) == 0 {
					continue
				}
				if len(f) < 2 {
					return fmt.Errorf("%s:%d: parameter %q needs a type", path, l.line, piece)
				}
				p.Params = append(p.Params, QVar{f[0], strings.Join(f[1:], "")})
			}
			tail := strings.TrimSpace(l.rest[c+1:])
			if i := strings.Index(tail, ":="); i >= 0 {
				p.Result = strings.TrimSpace(tail[:i])
				e, err := parseSpec(tail[i+2:])
				if err != nil {
					return fmt.Errorf("%s:%d: %v", path, l.line, err)
				}
				p.Body = e
			} else {
				p.Result = tail
			}
			if l.kw == "pred" {
				p.Result = ""
			}
			if other, dup := cs.Preds[p.Name]; dup {
				return fmt.Errorf("%s:%d: pred/fn %s is already defined in package %q (names are global): rename one of them", path, l.line, p.Name, other.Pkg)
			}
			cs.Preds[p.Name] = p
		case "ghost":
			f := strings.Fields(l.rest)
			if len(f) < 2 {
				return fmt.Errorf("%s:%d: ghost name type", path, l.line)
			}
			if prev, dup := cs.Ghosts[f[0]]; dup && prev.Type != strings.Join(f[1:], "") {
				return fmt.Errorf("%s:%d: ghost %s declared twice with different types", path, l.line, f[0])
			}
			cs.Ghosts[f[0]] = &GhostVar{Name: f[0], Type: strings.Join(f[1:], ""), Pkg: pkgPath, Free: l.name == "free"}
		case "lock":
			// lock Type.field guards a, b, c
			f := strings.Fields(l.rest)
			tf := strings.SplitN(f[0], ".", 2)
			if len(tf) != 2 {
				return fmt.Errorf("%s:%d: lock Type.field", path, l.line)
			}
			curLock = &LockSpec{Pkg: pkgPath, Type: tf[0], Field: tf[1]}
			if i := strings.Index(l.rest, "guards"); i >= 0 {
				for _, g := range splitTopLevel(l.rest[i+6:], ',') {
					if g = strings.TrimSpace(g); g != "" {
						curLock.Guards = append(curLock.Guards, g)
					}
				}
			}
			cs.Locks = append(cs.Locks, curLock)
		case "lemma", "axiom":
			i := strings.Index(l.rest, ":")
			if i < 0 {
				return fmt.Errorf("%s:%d: %s name: expr", path, l.line, l.kw)
			}
			optin := l.name == "optin"
			ll := l
			ll.rest = l.rest[i+1:]
			ll.name = strings.TrimSpace(l.rest[:i])
			c, err := mkClause(ll)
			if err != nil {
				return err
			}
			curLemma = &Lemma{Name: ll.name, Clause: c, Axiom: l.kw == "axiom", OptIn: optin, Pkg: pkgPath}
			cs.Lemmas = append(cs.Lemmas, curLemma)
		case "modset":
			// modset name := item, item, ...
			i := strings.Index(l.rest, ":=")
			if i < 0 {
				return fmt.Errorf("%s:%d: modset name := items", path, l.line)
			}
			name := strings.TrimSpace(l.rest[:i])
			if _, dup := cs.ModSets[name]; dup {
				return fmt.Errorf("%s:%d: second modset %s", path, l.line, name)
			}
			var items []string
			for _, m := range splitTopLevel(l.rest[i+2:], ',') {
				if m = strings.TrimSpace(m); m != "" {
					items = append(items, m)
				}
			}
			cs.ModSets[name] = items
		case "chaninv":
			// chaninv Type.field(v) := expr
			if tm := chanInvTypeRe.FindStringSubmatch(l.rest); tm != nil {
				// chaninv chan[T](v) := expr  - keyed by the element type: every channel of that element type
				ce, err := parseSpec(tm[3])
				if err != nil {
					return fmt.Errorf("%s:%d: %v", path, l.line, err)
				}
				key := "chan:" + pkgPath + ":" + strings.TrimSpace(tm[1])
				if _, dup := cs.ChanInvs[key]; dup {
					return fmt.Errorf("%s:%d: second chaninv for chan[%s]", path, l.line, tm[1])
				}
				cs.ChanInvs[key] = &ChanInv{Key: key, Short: "chan[" + strings.TrimSpace(tm[1]) + "]", Param: tm[2], Expr: ce, Src: strings.Join(strings.Fields(tm[3]), " "), Pkg: pkgPath, File: path, Line: l.line, ElemText: strings.TrimSpace(tm[1])}
				break
			}
			m := chanInvRe.FindStringSubmatch(l.rest)
			if m == nil {
				return fmt.Errorf("%s:%d: chaninv Type.field(v) := expr  |  chaninv chan[T](v) := expr", path, l.line)
			}
			ce, err := parseSpec(m[3])
			if err != nil {
				return fmt.Errorf("%s:%d: %v", path, l.line, err)
			}
			key := pkgPath + "." + m[1]
			if _, dup := cs.ChanInvs[key]; dup {
				return fmt.Errorf("%s:%d: second chaninv for %s", path, l.line, m[1])
			}
			cs.ChanInvs[key] = &ChanInv{Key: key, Short: m[1], Param: m[2], Expr: ce, Src: strings.Join(strings.Fields(m[3]), " "), Pkg: pkgPath, File: path, Line: l.line}
		case "ghostgroup":
			var g []string
			for _, b := range strings.Split(l.rest, ",") {
				if b = strings.TrimSpace(b); b != "" {
					g = append(g, b)
				}
			}
			if l.name == "lead" && len(g) > 0 {
				// ghostgroup[lead] a, b, c: only naming the FIRST ghost names the others
				g = append([]string{"<lead>"}, g...)
			}
			cs.GhostGroups = append(cs.GhostGroups, g)
		case "constructors":
			for _, b := range strings.Split(l.rest, ",") {
				if b = strings.TrimSpace(b); b != "" {
					cs.Ctors[b] = true
				}
			}
		case "immutable":
			if cs.Immut[pkgPath] == nil {
				cs.Immut[pkgPath] = map[string]bool{}
			}
			for _, b := range strings.Split(l.rest, ",") {
				if b = strings.TrimSpace(b); b != "" {
					cs.Immut[pkgPath][b] = true
				}
			}
		case "benign":
			for _, b := range strings.Split(l.rest, ",") {
				if b = strings.TrimSpace(b); b != "" {
					cs.Benign = append(cs.Benign, b)
				}
			}
		case "props":
			ps := strings.Fields(strings.ReplaceAll(l.rest, ",", " "))
			if curFunc != nil {
				curFunc.Props = ps
			} else if curLemma != nil {
				curLemma.Props = ps
			}
		case "arith":
			curFunc.Arith = strings.TrimSpace(l.rest)
		case "onreturn", "onspawn":
			if curFunc == nil {
				return fmt.Errorf("%s:%d: onreturn outside func", path, l.line)
			}
			i := strings.Index(l.rest, ":=")
			if i < 0 {
				return fmt.Errorf("%s:%d: onreturn [cond ==>] ghost := expr", path, l.line)
			}
			lhs, rhs := strings.TrimSpace(l.rest[:i]), l.rest[i+2:]
			gs := &GhostSet{Src: strings.Join(strings.Fields(l.rest), " ")}
			if j := strings.LastIndex(lhs, "==>"); j >= 0 {
				ce, err := parseSpec(lhs[:j])
				if err != nil {
					return fmt.Errorf("%s:%d: %v", path, l.line, err)
				}
				gs.Cond = ce
				lhs = strings.TrimSpace(lhs[j+3:])
			}
			gs.Var = lhs
			ve, err := parseSpec(rhs)
			if err != nil {
				return fmt.Errorf("%s:%d: %v", path, l.line, err)
			}
			gs.Val = ve
			if l.kw == "onspawn" {
				curFunc.OnSpawn = append(curFunc.OnSpawn, gs)
			} else {
				curFunc.OnReturn = append(curFunc.OnReturn, gs)
			}
		case "inst":
			// inst callee.ghost expr, expr
			f := strings.SplitN(strings.TrimSpace(l.rest), " ", 2)
			if len(f) != 2 || curFunc == nil {
				return fmt.Errorf("%s:%d: inst callee.ghost expr, ...", path, l.line)
			}
			if curFunc.Insts == nil {
				curFunc.Insts = map[string][]Expr{}
			}
			for _, u := range splitTopLevel(f[1], ',') {
				ue, err := parseSpec(u)
				if err != nil {
					return fmt.Errorf("%s:%d: inst: %v", path, l.line, err)
				}
				curFunc.Insts[f[0]] = append(curFunc.Insts[f[0]], ue)
			}
		case "ghostparam":
			f := strings.Fields(l.rest)
			if len(f) < 2 || (curFunc == nil && curLock == nil) {
				return fmt.Errorf("%s:%d: ghostparam name type", path, l.line)
			}
			if curLock != nil {
				curLock.Ghosts = append(curLock.Ghosts, QVar{f[0], strings.Join(f[1:], "")})
			} else {
				curFunc.Ghosts = append(curFunc.Ghosts, QVar{f[0], strings.Join(f[1:], "")})
			}
		case "lockassume":
			c, err := mkClause(l)
			if err != nil {
				return err
			}
			if curFunc == nil {
				return fmt.Errorf("%s:%d: lockassume outside func", path, l.line)
			}
			curFunc.LockAssumes = append(curFunc.LockAssumes, c)
		case "assume":
			c, err := mkClause(l)
			if err != nil {
				return err
			}
			if curLoop != nil {
				curLoop.Assumes = append(curLoop.Assumes, c)
				break
			}
			if curLock == nil {
				return fmt.Errorf("%s:%d: assume outside lock/loop", path, l.line)
			}
			curLock.Assumes = append(curLock.Assumes, c)
		case "trusted":
			curFunc.Trusted = true
		case "nochan":
			curFunc.NoChan = true
		case "maypanic":
			curFunc.MayPanic = true
		case "noreturn":
			curFunc.NoReturn = true
		case "requires", "ensures":
			if curFunc == nil {
				return fmt.Errorf("%s:%d: %s outside func", path, l.line, l.kw)
			}
			c, err := mkClause(l)
			if err != nil {
				return err
			}
			if l.kw == "requires" {
				curFunc.Requires = append(curFunc.Requires, c)
			} else {
				curFunc.Ensures = append(curFunc.Ensures, c)
			}
		case "keeps":
			if curFunc == nil {
				return fmt.Errorf("%s:%d: keeps outside func", path, l.line)
			}
			for _, m := range splitTopLevel(l.rest, ',') {
				if m = strings.TrimSpace(m); m != "" {
					curFunc.Keeps = append(curFunc.Keeps, m)
				}
			}
		case "chans":
			if curFunc == nil {
				return fmt.Errorf("%s:%d: chans outside func", path, l.line)
			}
			curFunc.HasChans = true
			for _, m := range splitTopLevel(l.rest, ',') {
				if m = strings.TrimSpace(m); m != "" {
					curFunc.Chans = append(curFunc.Chans, m)
				}
			}
		case "modifies":
			if curFunc == nil {
				return fmt.Errorf("%s:%d: modifies outside func", path, l.line)
			}
			curFunc.HasMod = true
			for _, m := range splitTopLevel(l.rest, ',') {
				if m = strings.TrimSpace(m); m != "" {
					curFunc.Modifies = append(curFunc.Modifies, m)
				}
			}
		case "loop":
			n, err := strconv.Atoi(strings.Fields(l.rest)[0])
			if err != nil || curFunc == nil {
				return fmt.Errorf("%s:%d: loop <ordinal>", path, l.line)
			}
			curLoop = &LoopSpec{Ordinal: n}
			curFunc.Loops[n] = curLoop
		case "invariant":
			c, err := mkClause(l)
			if err != nil {
				return err
			}
			if curLock != nil {
				curLock.Invariants = append(curLock.Invariants, c)
			} else if curLoop != nil {
				curLoop.Invariants = append(curLoop.Invariants, c)
			} else {
				return fmt.Errorf("%s:%d: invariant outside loop/lock", path, l.line)
			}
		case "guarantee":
			c, err := mkClause(l)
			if err != nil {
				return err
			}
			if curLock == nil {
				return fmt.Errorf("%s:%d: guarantee outside lock", path, l.line)
			}
			curLock.Guarantees = append(curLock.Guarantees, c)
		case "exit":
			c, err := mkClause(l)
			if err != nil {
				return err
			}
			if curLoop == nil {
				return fmt.Errorf("%s:%d: exit outside loop", path, l.line)
			}
			curLoop.Exits = append(curLoop.Exits, c)
		case "backedge":
			c, err := mkClause(l)
			if err != nil {
				return err
			}
			if curLoop == nil {
				return fmt.Errorf("%s:%d: backedge outside loop", path, l.line)
			}
			curLoop.BackEdges = append(curLoop.BackEdges, c)
		case "decreases":
			c, err := mkClause(l)
			if err != nil {
				return err
			}
			curLoop.Decreases = c
		case "unroll":
			n, _ := strconv.Atoi(strings.TrimSpace(l.rest))
			curLoop.Unroll = n
		case "guards":
			for _, g := range strings.Split(l.rest, ",") {
				if g = strings.TrimSpace(g); g != "" {
					curLock.Guards = append(curLock.Guards, g)
				}
			}
		}
	}
	return nil
}

// externParamStart finds the '(' opening the parameter list of an extern item:
// the last top-level '(' group that is followed only by an optional result group.
func externParamStart(s string) int {
	// scan groups from the right
	s = strings.TrimRight(s, " \n\t")
	end := len(s)
	// optional results group
	if end > 0 && s[end-1] == ')' {
		o := openOf(s, end-1)
		if o < 0 {
			return -1
		}
		rest := strings.TrimRight(s[:o], " ")
		if len(rest) > 0 && rest[len(rest)-1] == ')' {
			// there were two groups: params then results
			return openOf(rest, len(rest)-1)
		}
		return o
	}
	return -1
}

func openOf(s string, close int) int {
	depth := 0
	for i := close; i >= 0; i-- {
		switch s[i] {
		case ')':
			depth++
		case '(':
			depth--
			if depth == 0 {
				return i
			}
		}
	}
	return -1
}

// loadAll reads every contract file of the repository and the trusted specs.
func loadAllContracts(repo, trustedDir string, pkgOfDir func(dir string) string) (*Contracts, error) {
	cs := newContracts()
	var files []string
	filepath.Walk(repo, func(p string, info os.FileInfo, err error) error {
		if err != nil {
			return nil
		}
		if info.IsDir() && (info.Name() == ".git" || info.Name() == "node_modules") {
			return filepath.SkipDir
		}
		b := filepath.Base(p)
		if !info.IsDir() && strings.HasPrefix(b, "zz_contracts") && strings.HasSuffix(b, "_verif.go") {
			files = append(files, p)
		}
		return nil
	})
	for _, f := range files {
		if err := cs.loadFile(f, pkgOfDir(filepath.Dir(f))); err != nil {
			return nil, err
		}
	}
	specs, _ := filepath.Glob(filepath.Join(trustedDir, "*.spec"))
	for _, f := range specs {
		if err := cs.loadFile(f, ""); err != nil {
			return nil, err
		}
	}
	return cs, nil
}

// usesEnd: index of the ']' closing the name group of "kw[name; uses ...] rest" (brackets may nest).
func usesEnd(l string) int {
	o := strings.Index(l, "[")
	depth := 0
	for i := o; i < len(l); i++ {
		switch l[i] {
		case '[':
			depth++
		case ']':
			depth--
			if depth == 0 {
				return i
			}
		}
	}
	return -1
}

// expandModSets replaces modset names in every modifies list by their items (recursively).
func (cs *Contracts) expandModSets() error {
	var expand func(items []string, depth int) ([]string, error)
	expand = func(items []string, depth int) ([]string, error) {
		if depth > 8 {
			return nil, fmt.Errorf("modset nesting too deep (cycle?)")
		}
		var out []string
		for _, it := range items {
			if sub, ok := cs.ModSets[it]; ok {
				e, err := expand(sub, depth+1)
				if err != nil {
					return nil, err
				}
				out = append(out, e...)
			} else {
				out = append(out, it)
			}
		}
		return out, nil
	}
	fix := func(fc *FuncContract) error {
		if len(fc.Modifies) == 0 {
			return nil
		}
		e, err := expand(fc.Modifies, 0)
		if err != nil {
			return fmt.Errorf("%s:%d: %v", fc.File, fc.Line, err)
		}
		fc.Modifies = e
		return nil
	}
	for _, fc := range cs.Funcs {
		if err := fix(fc); err != nil {
			return err
		}
	}
	for _, fc := range cs.Externs {
		if err := fix(fc); err != nil {
			return err
		}
	}
	return nil
}

// lookupExtern: the extern contract for a call of `key` made from a function of package callerPkg
// (a scoped `extern[in pkg]` wins over the unscoped one). Returns the map key used.
func (cs *Contracts) lookupExtern(key, callerPkg string) (*FuncContract, string) {
	if fc, ok := cs.Externs[key+"@"+callerPkg]; ok {
		return fc, key + "@" + callerPkg
	}
	if fc, ok := cs.Externs[key]; ok {
		return fc, key
	}
	return nil, ""
}

// ghostClosure: every ghost named (transitively) together with `name` by the ghostgroup items
// (a `ghostgroup[lead]` only expands from its first member).
func (cs *Contracts) ghostClosure(name string) []string {
	seen := map[string]bool{name: true}
	order := []string{name}
	for i := 0; i < len(order); i++ {
		cur := order[i]
		for _, grp := range cs.GhostGroups {
			in := false
			if len(grp) > 1 && grp[0] == "<lead>" {
				in = grp[1] == cur
				grp = grp[1:]
			} else {
				for _, n := range grp {
					if n == cur {
						in = true
					}
				}
			}
			if !in {
				continue
			}
			for _, n := range grp {
				if !seen[n] {
					seen[n] = true
					order = append(order, n)
				}
			}
		}
	}
	return order
}
