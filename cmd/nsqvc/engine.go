package main

// Engine: loads /repo's working tree (go/packages + go/ssa naive form), binds contracts to
// SSA functions, emits one SMT-LIB script per obligation.

import (
	"fmt"
	"go/token"
	"go/types"
	"os"
	"path/filepath"
	"sort"
	"strconv"
	"strings"

	"golang.org/x/tools/go/packages"
	"golang.org/x/tools/go/ssa"
	"golang.org/x/tools/go/ssa/ssautil"
)

type Engine struct {
	bindErr map[*FuncContract]error
	repo        string
	module      string
	fset        *token.FileSet
	pkgs        []*packages.Package
	prog        *ssa.Program
	ssaPkgs     map[string]*ssa.Package
	allTypes    map[string]*types.Package
	contracts   *Contracts
	fnContract  map[*ssa.Function]*FuncContract
	contractFn  map[*FuncContract]*ssa.Function
	roGlobals   map[string]bool
	arrFieldIDs map[string]int
	implIfaces  map[string]types.Type
	built       map[string]bool
	loadErrs    []string
	lockDiscReads bool
	lockDisc    bool // lock-discipline obligations (writes to guarded fields happen under the mutex)
}

func newEngine(repo, trustedDir string, extraTrusted ...string) (*Engine, error) {
	e := &Engine{repo: repo, ssaPkgs: map[string]*ssa.Package{}, allTypes: map[string]*types.Package{},
		fnContract: map[*ssa.Function]*FuncContract{}, contractFn: map[*FuncContract]*ssa.Function{},
		roGlobals: map[string]bool{}, arrFieldIDs: map[string]int{}, implIfaces: map[string]types.Type{}, built: map[string]bool{}}
	e.lockDisc = os.Getenv("NSQVC_NO_LOCKDISC") == ""
	e.lockDiscReads = os.Getenv("NSQVC_LOCKDISC_READS") != ""
	mod, err := os.ReadFile(filepath.Join(repo, "go.mod"))
	if err != nil {
		return nil, err
	}
	for _, l := range strings.Split(string(mod), "\n") {
		if strings.HasPrefix(l, "module ") {
			e.module = strings.TrimSpace(strings.TrimPrefix(l, "module "))
		}
	}
	cs, err := loadAllContracts(repo, trustedDir, func(dir string) string {
		rel, _ := filepath.Rel(repo, dir)
		if rel == "." {
			return e.module
		}
		return e.module + "/" + filepath.ToSlash(rel)
	})
	if err != nil {
		return nil, err
	}
	for _, d := range extraTrusted {
		specs, _ := filepath.Glob(filepath.Join(d, "*.spec"))
		for _, f := range specs {
			if err := cs.loadFile(f, ""); err != nil {
				return nil, err
			}
		}
	}
	if err := cs.expandModSets(); err != nil {
		return nil, err
	}
	e.contracts = cs
	return e, nil
}

// load type-checks the packages that own contracts (and their imports) and builds SSA for them.
func (e *Engine) load(pkgPaths []string) error {
	cfg := &packages.Config{
		Mode: packages.NeedName | packages.NeedFiles | packages.NeedCompiledGoFiles | packages.NeedImports |
			packages.NeedTypes | packages.NeedTypesSizes | packages.NeedSyntax | packages.NeedTypesInfo,
		Dir: e.repo,
		Env: append(os.Environ(), "GOFLAGS=-mod=mod", "GOPROXY=off", "GOSUMDB=off", "GOTOOLCHAIN=local"),
	}
	pkgs, err := packages.Load(cfg, pkgPaths...)
	if err != nil {
		return err
	}
	for _, p := range pkgs {
		for _, er := range p.Errors {
			e.loadErrs = append(e.loadErrs, er.Error())
		}
	}
	if len(e.loadErrs) > 0 {
		return fmt.Errorf("package load errors: %s", strings.Join(e.loadErrs, "; "))
	}
	e.pkgs = pkgs
	if len(pkgs) > 0 {
		e.fset = pkgs[0].Fset
	}
	prog, _ := ssautil.Packages(pkgs, ssa.NaiveForm)
	e.prog = prog
	for _, sp := range prog.AllPackages() {
		e.ssaPkgs[sp.Pkg.Path()] = sp
		e.allTypes[sp.Pkg.Path()] = sp.Pkg
	}
	var walk func(p *types.Package)
	walk = func(p *types.Package) {
		if p == nil || e.allTypes[p.Path()] == p {
			return
		}
		e.allTypes[p.Path()] = p
		for _, imp := range p.Imports() {
			walk(imp)
		}
	}
	for _, p := range pkgs {
		walk(p.Types)
	}
	for _, p := range pkgs {
		if sp := e.ssaPkgs[p.PkgPath]; sp != nil {
			sp.Build()
			e.built[p.PkgPath] = true
		}
	}
	return e.bindContracts()
}

func (e *Engine) inRepo(path string) bool {
	return path == e.module || strings.HasPrefix(path, e.module+"/")
}

func (e *Engine) typesPkg(path string) *types.Package { return e.allTypes[path] }

func (e *Engine) importedPkg(from *types.Package, name string) *types.Package {
	if from != nil {
		for _, imp := range from.Imports() {
			if imp.Name() == name {
				return imp
			}
		}
	}
	// any repository package with that name
	var cands []string
	for path, p := range e.allTypes {
		if p.Name() == name && e.inRepo(path) {
			cands = append(cands, path)
		}
	}
	sort.Strings(cands)
	if len(cands) > 0 {
		return e.allTypes[cands[0]]
	}
	for path, p := range e.allTypes {
		if p.Name() == name {
			cands = append(cands, path)
		}
	}
	sort.Strings(cands)
	if len(cands) > 0 {
		return e.allTypes[cands[0]]
	}
	return nil
}

// resolveType parses a type written in a contract (`*Message`, `[]byte`, `protocol.ClientErr`, `map[string]int`).
func (e *Engine) resolveType(text string, pkg *types.Package) types.Type {
	text = strings.TrimSpace(text)
	switch {
	case text == "":
		return nil
	case text == "interface{}" || text == "any":
		return types.NewInterfaceType(nil, nil)
	case strings.HasPrefix(text, "*"):
		if t := e.resolveType(text[1:], pkg); t != nil {
			return types.NewPointer(t)
		}
		return nil
	case strings.HasPrefix(text, "set["):
		// spec-only set type set[T] (ghosts): an SMT array T -> Bool; builtins setin(s, x), setadd(s, x)
		if t := e.resolveType(strings.TrimSuffix(text[4:], "]"), pkg); t != nil {
			return types.NewArray(t, -2)
		}
		return nil
	case strings.HasPrefix(text, "seq["):
		if t := e.resolveType(strings.TrimSuffix(text[4:], "]"), pkg); t != nil {
			return types.NewArray(t, -1)
		}
		return nil
	case strings.HasPrefix(text, "[]"):
		if t := e.resolveType(text[2:], pkg); t != nil {
			return types.NewSlice(t)
		}
		return nil
	case strings.HasPrefix(text, "["):
		c := strings.Index(text, "]")
		n, err := strconv.Atoi(text[1:c])
		if err != nil {
			return nil
		}
		if t := e.resolveType(text[c+1:], pkg); t != nil {
			return types.NewArray(t, int64(n))
		}
		return nil
	case strings.HasPrefix(text, "map["):
		depth := 0
		for i := 3; i < len(text); i++ {
			if text[i] == '[' {
				depth++
			} else if text[i] == ']' {
				depth--
				if depth == 0 {
					k := e.resolveType(text[4:i], pkg)
					v := e.resolveType(text[i+1:], pkg)
					if k != nil && v != nil {
						return types.NewMap(k, v)
					}
					return nil
				}
			}
		}
		return nil
	case strings.HasPrefix(text, "chan"):
		if t := e.resolveType(strings.TrimSpace(text[4:]), pkg); t != nil {
			return types.NewChan(types.SendRecv, t)
		}
		return nil
	}
	if i := strings.LastIndex(text, "."); i >= 0 {
		q, name := text[:i], text[i+1:]
		var p *types.Package
		if strings.Contains(q, "/") {
			p = e.allTypes[q]
		} else {
			p = e.importedPkg(pkg, q)
		}
		if p == nil {
			return nil
		}
		if tn, ok := p.Scope().Lookup(name).(*types.TypeName); ok {
			return tn.Type()
		}
		return nil
	}
	if pkg != nil {
		if tn, ok := pkg.Scope().Lookup(text).(*types.TypeName); ok {
			return tn.Type()
		}
	}
	if tn, ok := types.Universe.Lookup(text).(*types.TypeName); ok {
		return tn.Type()
	}
	return nil
}

func (e *Engine) globalOf(v *types.Var) *ssa.Global {
	if v.Pkg() == nil {
		return nil
	}
	sp := e.ssaPkgs[v.Pkg().Path()]
	if sp == nil {
		return nil
	}
	g, _ := sp.Members[v.Name()].(*ssa.Global)
	return g
}

func (e *Engine) displayName(fn *ssa.Function) string {
	s := fn.String()
	if fn.Pkg != nil {
		s = strings.ReplaceAll(s, fn.Pkg.Pkg.Path(), fn.Pkg.Pkg.Name())
	}
	return s
}

func (e *Engine) contractOf(fn *ssa.Function) *FuncContract { return e.fnContract[fn] }

func (e *Engine) isBenign(key string) bool {
	for _, p := range e.contracts.Benign {
		if p == key {
			return true
		}
		if strings.HasSuffix(p, "*") && strings.HasPrefix(key, strings.TrimSuffix(p, "*")) {
			return true
		}
	}
	return false
}

func (e *Engine) findFunc(fc *FuncContract) (*ssa.Function, error) {
	sp := e.ssaPkgs[fc.PkgPath]
	if sp == nil {
		return nil, fmt.Errorf("package %s not loaded", fc.PkgPath)
	}
	name := fc.Name
	anon := ""
	if i := strings.Index(name, "$"); i >= 0 {
		name, anon = name[:i], fc.Name
	}
	var fn *ssa.Function
	if fc.RecvType == "" {
		fn = sp.Func(name)
	} else {
		tname := strings.TrimPrefix(fc.RecvType, "*")
		tn, ok := sp.Pkg.Scope().Lookup(tname).(*types.TypeName)
		if !ok {
			return nil, fmt.Errorf("type %s not found in %s", tname, fc.PkgPath)
		}
		var recv types.Type = tn.Type()
		if strings.HasPrefix(fc.RecvType, "*") {
			recv = types.NewPointer(recv)
		}
		sel := e.prog.MethodSets.MethodSet(recv).Lookup(sp.Pkg, name)
		if sel == nil {
			return nil, fmt.Errorf("method %s.%s not found", fc.RecvType, name)
		}
		fn = e.prog.MethodValue(sel)
	}
	if fn == nil {
		return nil, fmt.Errorf("function %s not found in %s", fc.Name, fc.PkgPath)
	}
	if anon != "" {
		var find func(f *ssa.Function) *ssa.Function
		find = func(f *ssa.Function) *ssa.Function {
			for _, a := range f.AnonFuncs {
				if a.Name() == anon {
					return a
				}
				if r := find(a); r != nil {
					return r
				}
			}
			return nil
		}
		fn = find(fn)
		if fn == nil {
			return nil, fmt.Errorf("closure %s not found", fc.Name)
		}
	}
	return fn, nil
}

func (e *Engine) bindContracts() error {
	var errs []string
	for _, fc := range e.contracts.Funcs {
		if !e.built[fc.PkgPath] {
			continue
		}
		fn, err := e.findFunc(fc)
		if err != nil {
			// the function a contract names is gone: the properties it serves report it (contract-binds)
			if e.bindErr == nil {
				e.bindErr = map[*FuncContract]error{}
			}
			e.bindErr[fc] = fmt.Errorf("%s:%d: %v", fc.File, fc.Line, err)
			continue
		}
		if other, dup := e.fnContract[fn]; dup {
			errs = append(errs, fmt.Sprintf("%s:%d: second contract for %s (first at %s:%d)", fc.File, fc.Line, fn, other.File, other.Line))
			continue
		}
		e.fnContract[fn] = fc
		e.contractFn[fc] = fn
	}
	if len(errs) > 0 {
		return fmt.Errorf("contract binding failed (fail closed):\n  %s", strings.Join(errs, "\n  "))
	}
	return nil
}

// translate builds the obligations of one function under contract.
func (e *Engine) translate(fc *FuncContract) (*fnTrans, error) {
	fn := e.contractFn[fc]
	if fn == nil {
		return nil, fmt.Errorf("no function bound for contract %s", fc.Name)
	}
	if len(fn.Blocks) == 0 {
		return nil, fmt.Errorf("%s has no body", fn)
	}
	t := &fnTrans{eng: e, fn: fn, fc: fc, name: e.displayName(fn),
		vars: map[string]*StateVar{}, loopMod: map[int]map[string]bool{}, loopModAll: map[int]bool{}}
	t.S = newSorts(fc.Arith == "bv64", e.inRepo)
	t.run()
	if len(t.errs) > 0 {
		return t, fmt.Errorf("%s: outside the supported subset or bad contract:\n    %s", t.name, strings.Join(uniq(t.errs), "\n    "))
	}
	return t, nil
}

func uniq(ss []string) []string {
	seen := map[string]bool{}
	var out []string
	for _, s := range ss {
		if !seen[s] {
			seen[s] = true
			out = append(out, s)
		}
	}
	return out
}

// vc renders the SMT-LIB script that decides one obligation: unsat = discharged.
func (t *fnTrans) vc(o *Obligation, weakIx bool) string {
	var b strings.Builder
	b.WriteString("; obligation " + o.Name + "\n; " + o.Desc + "\n; at " + o.Pos + "\n")
	b.WriteString("(set-option :produce-models true)\n(set-logic ALL)\n")
	b.WriteString(strings.Replace(t.S.prelude(), ";IXAXIOM\n", t.S.ixAxiom(weakIx), 1))
	for _, d := range t.S.decls {
		b.WriteString(d + "\n")
	}
	b.WriteString(t.S.strLitDecls())
	for _, d := range t.decls {
		b.WriteString(d + "\n")
	}
	for _, a := range t.S.axioms {
		b.WriteString("(assert " + a + ")\n")
	}
	// which known dynamic types implement the asserted interfaces
	for _, name := range sortedKeys(t.usedImpl) {
		it := t.usedImpl[name].Underlying().(*types.Interface)
		for _, ty := range t.S.tagTypes {
			impl := types.Implements(ty, it)
			fmt.Fprintf(&b, "(assert (= (%s %s) %v))\n", name, t.S.tagOf(ty), impl)
		}
	}
	for _, ax := range t.axiomTerms {
		b.WriteString("(assert " + ax + ")\n")
	}
	for _, ax := range t.seqFacts {
		b.WriteString("(assert " + ax + ")\n")
	}
	for _, u := range o.Uses {
		b.WriteString("(assert " + u + ")\n")
	}
	anc := t.ancestors(o.Block)
	for i, c := range t.cons {
		if i >= o.NCons || !anc[c.block] {
			continue
		}
		if c.guarded {
			fmt.Fprintf(&b, "(assert (=> reach_%d %s))\n", c.block, c.text)
		} else {
			b.WriteString("(assert " + c.text + ")\n")
		}
	}
	fmt.Fprintf(&b, "(assert reach_%d)\n", o.Block)
	b.WriteString("(assert (not " + o.Cond + "))\n(check-sat)\n")
	for _, q := range t.modelQueries() {
		b.WriteString("(get-value (" + q + "))\n")
	}
	text := b.String()
	if strings.Contains(text, "(str_lt ") && strings.Count(text, "(str_lt ") >= 2 {
		// Go's string order is a strict total order
		ax := "(assert (forall ((sa Str)) (! (not (str_lt sa sa)) :pattern ((str_lt sa sa)))))\n" +
			"(assert (forall ((sa Str) (sb Str)) (! (and (=> (str_lt sa sb) (not (str_lt sb sa))) (=> (not (= sa sb)) (or (str_lt sa sb) (str_lt sb sa)))) :pattern ((str_lt sa sb)))))\n" +
			"(assert (forall ((sa Str) (sb Str) (sc Str)) (! (=> (and (str_lt sa sb) (str_lt sb sc)) (str_lt sa sc)) :pattern ((str_lt sa sb) (str_lt sb sc)))))\n"
		text = strings.Replace(text, "(declare-fun unix (Int Int) Int)\n", "(declare-fun unix (Int Int) Int)\n"+ax, 1)
	}
	if strings.Contains(text, "(str_of_bytes ") && strings.Contains(text, "(str_at ") {
		// string(b): the string has the bytes of the slice (position by position)
		ax := "(assert (forall ((sa (Array Int Int)) (so Int) (sn Int) (si Int)) (! (=> (and (<= 0 si) (< si sn)) (= (str_at (str_of_bytes sa so sn) si) (select sa (ix so si)))) :pattern ((str_at (str_of_bytes sa so sn) si)))))\n"
		text = strings.Replace(text, "(check-sat)", ax+"(check-sat)", 1)
	}
	if strings.Contains(text, "(bytes_of_str ") && strings.Contains(text, "(str_at ") {
		// []byte(s): the slice has the bytes of the string (position by position)
		ax := "(assert (forall ((sb Str) (si Int)) (! (=> (and (<= 0 si) (< si (strlen sb))) (= (select (bytes_of_str sb) si) (str_at sb si))) :pattern ((select (bytes_of_str sb) si)))))\n"
		text = strings.Replace(text, "(check-sat)", ax+"(check-sat)", 1)
	}
	if strings.Count(text, "(fieldaddr ") >= 2 {
		// the address of a field determines the object and the field (two field addresses are equal only if both agree)
		ax := "(declare-fun fieldaddr_id (Int) Int)\n(declare-fun fieldaddr_obj (Int) Int)\n" +
			"(assert (forall ((fi Int) (fr Int)) (! (and (= (fieldaddr_id (fieldaddr fi fr)) fi) (= (fieldaddr_obj (fieldaddr fi fr)) fr)) :pattern ((fieldaddr fi fr)))))\n"
		text = strings.Replace(text, "(declare-fun unix (Int Int) Int)\n", "(declare-fun unix (Int Int) Int)\n"+ax, 1)
	}
	return text
}

// modelQueries: terms whose values describe the inputs in a counterexample.
func (t *fnTrans) modelQueries() []string {
	var qs []string
	if t.fn == nil {
		return nil
	}
	for _, p := range t.fn.Params {
		n := "p_" + sanitize(p.Name())
		switch u := p.Type().Underlying().(type) {
		case *types.Slice:
			qs = append(qs, fmt.Sprintf("(slen %s)", n))
			if ev, ok := t.vars["E_"+typeKey(u.Elem())]; ok && (isInt(u.Elem()) || isBool(u.Elem())) {
				for i := 0; i < 24; i++ {
					qs = append(qs, fmt.Sprintf("(select (select %s_0 (sbase %s)) (ix (soff %s) %d))", ev.Name, n, n, i))
				}
			}
		case *types.Basic:
			if isString(p.Type()) {
				qs = append(qs, fmt.Sprintf("(strlen %s)", n))
			} else {
				qs = append(qs, n)
			}
		default:
			if isRefLike(p.Type()) {
				qs = append(qs, n)
			}
		}
	}
	for _, q := range t.extraQueries {
		qs = append(qs, q)
	}
	return qs
}

// chanInvByElem: the element-type keyed channel invariant (`chaninv chan[T]`) for channels of element type elem.
func (e *Engine) chanInvByElem(elem types.Type) *ChanInv {
	for _, k := range sortedKeys(e.contracts.ChanInvs) {
		ci := e.contracts.ChanInvs[k]
		if ci.ElemText == "" {
			continue
		}
		pkg := e.typesPkg(ci.Pkg)
		if pkg == nil {
			continue
		}
		if ty := e.resolveType(ci.ElemText, pkg); ty != nil && types.Identical(ty, elem) {
			return ci
		}
	}
	return nil
}
