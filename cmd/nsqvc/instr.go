package main

// Per-instruction translation.

import (
	"sort"
	"fmt"
	"go/token"
	"go/types"
	"strings"

	"golang.org/x/tools/go/ssa"
)

// fieldArrBase: the backing-store reference of an array-typed struct field (arrays live in
// the elems store so that they can be sliced). Negative, injective in (ref, field).
func (t *fnTrans) fieldArrBase(st types.Type, field int, ref Term) Term {
	key := typeKey(st) + "." + st.Underlying().(*types.Struct).Field(field).Name()
	id, ok := t.eng.arrFieldIDs[key]
	if !ok {
		id = len(t.eng.arrFieldIDs) + 1
		t.eng.arrFieldIDs[key] = id
	}
	return fmt.Sprintf("(- 0 (+ (* %s 1024) %d))", ref, id)
}

func (t *fnTrans) instr(in ssa.Instruction) {
	switch in := in.(type) {
	case *ssa.DebugRef:
	case *ssa.Alloc:
		t.alloc(in)
	case *ssa.Store:
		p := t.pathOf(in.Addr)
		t.nilCheck(p, in.Pos(), "store")
		t.lockDiscipline(p, true, in.Pos())
		t.storePath(p, t.term(t.val(in.Val)))
		// a local variable that holds a closure and is assigned exactly once (`bp := func..`): calls through it are static
		if a, ok := in.Addr.(*ssa.Alloc); ok && !a.Heap && p.Cell != "" && len(p.Sels) == 0 {
			if v := t.val(in.Val); v.Fn != nil && singleStore(a) {
				if t.cellFn == nil {
					t.cellFn = map[string]cellFnRec{}
				}
				t.cellFn[p.Cell] = cellFnRec{v, in.Block()}
			}
		}
	case *ssa.UnOp:
		t.unop(in)
	case *ssa.BinOp:
		yc := constOfValue(in.Y)
		x, y := t.term(t.val(in.X)), t.term(t.val(in.Y))
		t.defineReg(in, t.binop(in.Op, x, y, in.X.Type(), in.Y.Type(), yc, in.Pos()))
	case *ssa.Convert:
		t.convertInstr(in)
	case *ssa.ChangeType:
		v := t.val(in.X)
		nv := Val{T: t.term(v), Fn: v.Fn, Bnd: v.Bnd}
		// conversion between two named struct types with the same underlying type (`T(x)`): the SMT sorts differ, rebuild the value field by field
		if fs, ok := in.X.Type().Underlying().(*types.Struct); ok && !t.S.opaqueStruct(in.X.Type()) && !t.S.opaqueStruct(in.Type()) {
			from, to := t.S.sortOf(in.X.Type()), t.S.sortOf(in.Type())
			if from != to {
				var parts []string
				for i := 0; i < fs.NumFields(); i++ {
					parts = append(parts, fmt.Sprintf("(%s_%s %s)", from, sanitize(fs.Field(i).Name()), nv.T))
				}
				if len(parts) == 0 {
					parts = []string{"0"}
				}
				nv.T = fmt.Sprintf("(mk_%s %s)", to, strings.Join(parts, " "))
			}
		}
		t.setVal(in, nv)
	case *ssa.ChangeInterface:
		t.setVal(in, Val{T: t.term(t.val(in.X))})
	case *ssa.MakeInterface:
		xt := in.X.Type()
		xval := t.val(in.X)
		xv := t.term(xval)
		r := t.defineReg(in, fmt.Sprintf("(mk_iface %s %s)", t.S.tagOf(xt), t.S.box(xv, xt)))
		r.IfaceT, r.IfaceV = xt, xv
		if xval.P != nil && !(xval.P.Ref != "" && xval.P.ArrOf == "" && len(xval.P.Sels) == 0) {
			// interior address (&x.f) boxed into an interface: remember the location so that a callee's
			// contract can still reach it through unbox()
			r.IfaceP = xval.P
		}
		t.vals[in] = r
	case *ssa.TypeAssert:
		t.typeAssert(in)
	case *ssa.Extract:
		tv := t.val(in.Tuple)
		if in.Index < len(tv.Tup) {
			t.setVal(in, tv.Tup[in.Index])
		} else {
			t.errorf("extract #%d from non-tuple %s", in.Index, in.Tuple.Name())
			t.setVal(in, Val{T: t.freshVal("extract", in.Type())})
		}
	case *ssa.Call:
		r := t.call(in.Common(), in, in.Pos())
		t.setVal(in, r)
	case *ssa.FieldAddr:
		t.fieldAddr(in)
	case *ssa.Field:
		x := t.term(t.val(in.X))
		s := in.X.Type().Underlying().(*types.Struct)
		so := t.S.sortOf(in.X.Type())
		if strings.HasPrefix(so, "O_") {
			t.setVal(in, Val{T: t.freshVal("opaquefield", in.Type())})
		} else {
			t.defineReg(in, fmt.Sprintf("(%s_%s %s)", so, sanitize(s.Field(in.Field).Name()), x))
		}
	case *ssa.IndexAddr:
		t.indexAddr(in)
	case *ssa.Index:
		x := t.term(t.val(in.X))
		i := t.idxTerm(in.Index)
		switch u := in.X.Type().Underlying().(type) {
		case *types.Array:
			t.oblige("safety", "index", "array index in range", fmt.Sprintf("(and (<= 0 %s) (< %s %d))", i, i, u.Len()), in.Pos())
			r := t.defineReg(in, fmt.Sprintf("(select %s %s)", x, i))
			t.assume(t.wf(r.T, in.Type()))
		case *types.Basic: // string
			t.oblige("safety", "index", "string index in range", fmt.Sprintf("(and (<= 0 %s) (< %s (strlen %s)))", i, i, x), in.Pos())
			r := t.defineReg(in, t.fromInt(fmt.Sprintf("(str_at %s %s)", x, i), in.Type()))
			t.assume(t.wf(r.T, in.Type()))
		default:
			t.errorf("Index on %s", in.X.Type())
		}
	case *ssa.Slice:
		t.sliceInstr(in)
	case *ssa.MakeSlice:
		ln, cp := t.idxTerm(in.Len), t.idxTerm(in.Cap)
		t.oblige("safety", "make", "make: 0 <= len <= cap",
			fmt.Sprintf("(and (<= 0 %s) (<= %s %s))", ln, ln, cp), in.Pos())
		t.assumptions["allocation sizes: running out of memory (or above the runtime's limit) is not modelled"] = true
		et := in.Type().Underlying().(*types.Slice).Elem()
		ev := t.elemsVar(et)
		r := t.newRef()
		t.set(ev.Name, fmt.Sprintf("(store %s %s %s)", t.get(t.cur, ev.Name), r, t.S.constArray(t.S.sortOf(et), t.S.zero(et))))
		t.defineReg(in, fmt.Sprintf("(mk_slice %s 0 %s %s)", r, ln, cp))
	case *ssa.MakeMap:
		mt := in.Type().Underlying().(*types.Map)
		md, _, ml := t.mapVars(mt)
		r := t.newRef()
		t.set(md.Name, fmt.Sprintf("(store %s %s ((as const (Array %s Bool)) false))", t.get(t.cur, md.Name), r, t.S.sortOf(mt.Key())))
		t.set(ml.Name, fmt.Sprintf("(store %s %s 0)", t.get(t.cur, ml.Name), r))
		t.setVal(in, Val{T: r})
	case *ssa.MakeChan:
		// make(chan T, n): n < 0 panics; a new channel has seen no send and no receive
		t.oblige("safety", "make", "channel size not negative", fmt.Sprintf("(>= %s 0)", t.idxTerm(in.Size)), in.Pos())
		r := t.newRef()
		sent, _, recvd := t.chanVars(in.Type())
		t.set(sent.Name, fmt.Sprintf("(store %s %s 0)", t.get(t.cur, sent.Name), r))
		t.set(recvd.Name, fmt.Sprintf("(store %s %s 0)", t.get(t.cur, recvd.Name), r))
		cx := t.chanClosedVar(in.Type())
		t.set(cx.Name, fmt.Sprintf("(store %s %s false)", t.get(t.cur, cx.Name), r))
		t.setVal(in, Val{T: r})
	case *ssa.MapUpdate:
		t.mapUpdate(in)
	case *ssa.Lookup:
		t.lookup(in)
	case *ssa.Range:
		t.rangeInstr(in)
	case *ssa.Next:
		t.nextInstr(in)
	case *ssa.MakeClosure:
		r := t.fresh("closure", "Int")
		t.assume(fmt.Sprintf("(> %s 0)", r))
		t.assume(fmt.Sprintf("(= (fnname_of %s) %s)", r, t.S.strLit(strings.TrimSuffix(in.Fn.(*ssa.Function).String(), "$bound"))))
		var b []Val
		for _, x := range in.Bindings {
			b = append(b, t.val(x))
		}
		t.setVal(in, Val{T: r, Fn: in.Fn.(*ssa.Function), Bnd: b})
	case *ssa.Defer:
		t.defers = append(t.defers, in)
	case *ssa.RunDefers:
		for i := len(t.defers) - 1; i >= 0; i-- {
			d := t.defers[i]
			if d.Block().Dominates(t.blk) {
				t.call(d.Common(), nil, d.Pos())
			} else if reaches(d.Block(), t.blk, t) {
				t.condDefer(d)
			}
		}
	case *ssa.Go:
		t.assumptions["goroutine spawned at "+t.posStr(in.Pos())+" is not followed (its body is verified separately if under contract)"] = true
		t.spawn(in)
	case *ssa.Panic:
		if t.fc == nil || !t.fc.MayPanic {
			t.oblige("safety", "panic", "explicit panic unreachable", "false", in.Pos())
		}
	case *ssa.Return:
		if t.inl != nil {
			t.inl.returns = append(t.inl.returns, inlReturn{in, t.inl.cur, t.cur})
			return
		}
		t.ret(in)
	case *ssa.If, *ssa.Jump:
	case *ssa.Send:
		t.chanSend(in)
	case *ssa.Select:
		t.selectInstr(in)
	default:
		t.errorf("unsupported instruction %T at %s", in, t.posStr(in.Pos()))
		if v, ok := in.(ssa.Value); ok {
			t.setVal(v, Val{T: t.freshVal("unsup", v.Type())})
		}
	}
}

// condDefer runs a defer statement that does not dominate the return: the call happens exactly when the block of the defer statement
// was reached on this path (its reach predicate; every block is visited at most once in the cut control-flow graph, so a defer statement
// inside a loop stays outside the subset). Everything the call obliges or assumes is guarded by that predicate and the state after it is
// the state before it on the paths that skipped the defer statement.
func (t *fnTrans) condDefer(d *ssa.Defer) {
	for _, li := range t.loops {
		if li.body[d.Block().Index] {
			t.errorf("defer inside a loop at %s is outside the supported subset", t.posStr(d.Pos()))
			return
		}
	}
	g := t.reach[d.Block().Index]
	if g == "" || t.dguard != "" {
		t.errorf("conditional defer at %s is outside the supported subset", t.posStr(d.Pos()))
		return
	}
	pre := &State{m: map[string]Term{}}
	for k, v := range t.cur.m {
		pre.m[k] = v
	}
	t.dguard = g
	t.call(d.Common(), nil, d.Pos())
	t.dguard = ""
	var ks []string
	for k := range t.cur.m {
		ks = append(ks, k)
	}
	sort.Strings(ks)
	for _, k := range ks {
		v := t.cur.m[k]
		old := t.get(pre, k)
		if old != v {
			t.cur.m[k] = fmt.Sprintf("(ite %s %s %s)", g, v, old)
		}
	}
}

type cellFnRec struct {
	v   Val
	blk *ssa.BasicBlock
}

// singleStore: the local cell is written by exactly one Store instruction (and never has its address passed on).
func singleStore(a *ssa.Alloc) bool {
	n := 0
	for _, r := range *a.Referrers() {
		switch x := r.(type) {
		case *ssa.Store:
			if x.Addr == a {
				n++
			} else {
				return false // the address itself is stored somewhere
			}
		case *ssa.UnOp, *ssa.DebugRef:
		default:
			return false
		}
	}
	return n == 1
}

func reaches(from, to *ssa.BasicBlock, t *fnTrans) bool {
	return t.ancestors(to.Index)[from.Index]
}

// idxTerm: an integer-typed value as an Int term usable as index/length (bv mode converts).
func (t *fnTrans) idxTerm(v ssa.Value) Term {
	if v == nil {
		return ""
	}
	x := t.term(t.val(v))
	return t.toInt(x, v.Type())
}

func (t *fnTrans) toInt(x Term, ty types.Type) Term {
	if !t.S.bv {
		return x
	}
	if c, ok := bvConst(x); ok {
		return c
	}
	if isUnsigned(ty) {
		return fmt.Sprintf("(bv2nat %s)", x)
	}
	w := intWidth(ty)
	return fmt.Sprintf("(ite (bvslt %s (_ bv0 %d)) (- (bv2nat %s) %s) (bv2nat %s))", x, w, x, pow2(uint64(w)), x)
}

func bvConst(x Term) (string, bool) {
	if strings.HasPrefix(x, "(_ bv") {
		f := strings.Fields(strings.Trim(x, "()"))
		if len(f) == 3 {
			return strings.TrimPrefix(f[1], "bv"), true
		}
	}
	return "", false
}

func (t *fnTrans) fromInt(x Term, ty types.Type) Term {
	if !t.S.bv {
		return x
	}
	return fmt.Sprintf("((_ int2bv %d) %s)", intWidth(ty), x)
}

func (t *fnTrans) alloc(in *ssa.Alloc) {
	et := in.Type().(*types.Pointer).Elem()
	if !in.Heap {
		if _, ok := t.cellName[in]; !ok {
			pre := ""
			if t.inl != nil {
				pre = t.inl.prefix
			}
			t.cellName[in] = fmt.Sprintf("C_%s%s_%s", pre, sanitize(in.Comment), sanitize(in.Name()))
		}
		name := t.cellName[in]
		t.stateVar(name, t.S.sortOf(et), "cell", false, et)
		t.declare(name+"_0", t.S.sortOf(et))
		t.set(name, t.S.zero(et))
		t.setVal(in, Val{P: &Path{Cell: name, Typ: et}})
		return
	}
	r := t.newRef()
	if at, ok := et.Underlying().(*types.Array); ok {
		ev := t.elemsVar(at.Elem())
		t.set(ev.Name, fmt.Sprintf("(store %s %s %s)", t.get(t.cur, ev.Name), r, t.S.constArray(t.S.sortOf(at.Elem()), t.S.zero(at.Elem()))))
		t.setVal(in, Val{T: r, P: &Path{ArrOf: ev.Name, Ref: r, Typ: et}})
		return
	}
	p := &Path{Ref: r, Typ: et}
	t.zeroInit(p, et)
	t.setVal(in, Val{P: p})
}

// zeroInit a freshly allocated object.
func (t *fnTrans) zeroInit(p *Path, et types.Type) {
	if s, ok := et.Underlying().(*types.Struct); ok && !t.S.opaqueStruct(et) {
		for i := 0; i < s.NumFields(); i++ {
			f := s.Field(i)
			if at, isArr := f.Type().Underlying().(*types.Array); isArr {
				ev := t.elemsVar(at.Elem())
				t.set(ev.Name, fmt.Sprintf("(store %s %s %s)", t.get(t.cur, ev.Name), t.fieldArrBase(et, i, p.Ref), t.S.constArray(t.S.sortOf(at.Elem()), t.S.zero(at.Elem()))))
				continue
			}
			fv := t.fieldVar(et, i)
			t.set(fv.Name, fmt.Sprintf("(store %s %s %s)", t.get(t.cur, fv.Name), p.Ref, t.S.zero(f.Type())))
		}
		return
	}
	t.storePath(p, t.S.zero(et))
}

func (t *fnTrans) fieldAddr(in *ssa.FieldAddr) {
	base := t.val(in.X)
	st := in.X.Type().Underlying().(*types.Pointer).Elem()
	s := st.Underlying().(*types.Struct)
	f := s.Field(in.Field)
	if base.P != nil && !(base.P.Ref != "" && base.P.ArrOf == "" && len(base.P.Sels) == 0) {
		np := *base.P
		np.Sels = append(append([]Sel{}, base.P.Sels...), Sel{Field: in.Field, Struct: s, SType: st})
		t.setVal(in, Val{P: &np})
		return
	}
	ref := t.term(base)
	t.oblige("safety", "nil", "nil dereference: field "+f.Name(), fmt.Sprintf("(not (= %s 0))", ref), in.Pos())
	if at, isArr := f.Type().Underlying().(*types.Array); isArr && !t.S.opaqueStruct(st) {
		ev := t.elemsVar(at.Elem())
		t.setVal(in, Val{P: &Path{ArrOf: ev.Name, Ref: t.fieldArrBase(st, in.Field, ref), Typ: f.Type()}})
		return
	}
	t.setVal(in, Val{P: &Path{Ref: ref, Typ: st, Sels: []Sel{{Field: in.Field, Struct: s, SType: st}}}})
}

func (t *fnTrans) indexAddr(in *ssa.IndexAddr) {
	i := t.idxTerm(in.Index)
	switch u := in.X.Type().Underlying().(type) {
	case *types.Slice:
		x := t.term(t.val(in.X))
		t.oblige("safety", "index", "slice index in range", fmt.Sprintf("(and (<= 0 %s) (< %s (slen %s)))", i, i, x), in.Pos())
		ev := t.elemsVar(u.Elem())
		t.setVal(in, Val{P: &Path{ArrOf: ev.Name, Ref: fmt.Sprintf("(sbase %s)", x), Sels: []Sel{{Index: fmt.Sprintf("(ix (soff %s) %s)", x, i), Elem: u.Elem()}}}})
	case *types.Pointer:
		at := u.Elem().Underlying().(*types.Array)
		t.oblige("safety", "index", "array index in range", fmt.Sprintf("(and (<= 0 %s) (< %s %d))", i, i, at.Len()), in.Pos())
		base := t.val(in.X)
		var np Path
		if base.P != nil {
			np = *base.P
			np.Sels = append(append([]Sel{}, base.P.Sels...), Sel{Index: i, Elem: at.Elem()})
		} else {
			// pointer to an array object: stored in elems at that reference
			ev := t.elemsVar(at.Elem())
			ref := t.term(base)
			t.oblige("safety", "nil", "nil dereference: array pointer", fmt.Sprintf("(not (= %s 0))", ref), in.Pos())
			np = Path{ArrOf: ev.Name, Ref: ref, Typ: u.Elem(), Sels: []Sel{{Index: i, Elem: at.Elem()}}}
		}
		t.setVal(in, Val{P: &np})
	default:
		t.errorf("IndexAddr on %s", in.X.Type())
	}
}

func (t *fnTrans) unop(in *ssa.UnOp) {
	switch in.Op {
	case token.MUL:
		if g, ok := in.X.(*ssa.Global); ok && g.Name() == "init$guard" && t.fn.Synthetic == "package initializer" {
			// a contract on a package initializer speaks about the one execution that runs the `var x = ...` initializers
			// (the guard is set by that execution; the skip path of a second call is not a behaviour of the program)
			t.setVal(in, Val{T: "false"})
			return
		}
		p := t.pathOf(in.X)
		t.nilCheck(p, in.Pos(), "load")
		if t.eng.lockDiscReads {
			t.lockDiscipline(p, false, in.Pos())
		}
		v, _ := t.loadPath(t.cur, p)
		r := t.defineReg(in, v)
		if p.Cell == "" {
			t.assume(t.wf(r.T, in.Type()))
		} else if rec, ok := t.cellFn[p.Cell]; ok && len(p.Sels) == 0 && (rec.blk == in.Block() || rec.blk.Dominates(in.Block())) {
			r.Fn, r.Bnd = rec.v.Fn, rec.v.Bnd
			t.vals[in] = r
		}
	case token.NOT:
		t.defineReg(in, fmt.Sprintf("(not %s)", t.term(t.val(in.X))))
	case token.SUB:
		x := t.term(t.val(in.X))
		if isFloat(in.Type()) {
			t.defineReg(in, fmt.Sprintf("(- %s)", x))
		} else if t.S.bv {
			t.defineReg(in, fmt.Sprintf("(bvneg %s)", x))
		} else {
			t.defineReg(in, t.wrap(fmt.Sprintf("(- %s)", x), in.Type()))
		}
	case token.XOR:
		x := t.term(t.val(in.X))
		if t.S.bv {
			t.defineReg(in, fmt.Sprintf("(bvnot %s)", x))
		} else if isUnsigned(in.Type()) {
			_, hi := intBounds(in.Type())
			t.defineReg(in, fmt.Sprintf("(- %s %s)", hi, x))
		} else {
			t.defineReg(in, fmt.Sprintf("(- (- %s) 1)", x))
		}
	case token.ARROW:
		t.chanRecv(in)
	default:
		t.errorf("unsupported unop %s", in.Op)
	}
}

func (t *fnTrans) convertInstr(in *ssa.Convert) {
	from, to := in.X.Type(), in.Type()
	x := t.term(t.val(in.X))
	if r := t.convert(x, from, to); r != "" {
		t.defineReg(in, r)
		return
	}
	fu, tu := from.Underlying(), to.Underlying()
	// []byte -> string
	if sl, ok := fu.(*types.Slice); ok && isString(to) {
		ev := t.elemsVar(sl.Elem())
		t.ensureStrFns()
		r := t.defineReg(in, fmt.Sprintf("(str_of_bytes (select %s (sbase %s)) (soff %s) (slen %s))", t.get(t.cur, ev.Name), x, x, x))
		t.assume(fmt.Sprintf("(= (strlen %s) (slen %s))", r.T, x))
		t.assume(t.wf(r.T, to))
		return
	}
	// string -> []byte
	if sl, ok := tu.(*types.Slice); ok && isString(from) {
		ev := t.elemsVar(sl.Elem())
		t.ensureStrFns()
		r := t.newRef()
		t.set(ev.Name, fmt.Sprintf("(store %s %s (bytes_of_str %s))", t.get(t.cur, ev.Name), r, x))
		t.defineReg(in, fmt.Sprintf("(mk_slice %s 0 (strlen %s) (strlen %s))", r, x, x))
		return
	}
	// integer/rune -> string
	if isInt(from) && isString(to) {
		r := t.freshVal("runestr", to)
		t.setVal(in, Val{T: r})
		return
	}
	// pointer <-> unsafe.Pointer etc.
	if isRefLike(from) && isRefLike(to) {
		t.setVal(in, Val{T: x})
		return
	}
	t.errorf("unsupported conversion %s -> %s", from, to)
	t.setVal(in, Val{T: t.freshVal("conv", to)})
}

func (t *fnTrans) ensureStrFns() {
	t.S.ixArith = true
	if !t.S.declared["str_of_bytes"] {
		t.S.declared["str_of_bytes"] = true
		t.S.decls = append(t.S.decls, "(declare-fun str_of_bytes ((Array Int Int) Int Int) Str)", "(declare-fun bytes_of_str (Str) (Array Int Int))")
	}
}

func (t *fnTrans) typeAssert(in *ssa.TypeAssert) {
	x := t.term(t.val(in.X))
	at := in.AssertedType
	var ok, val Term
	if _, isIface := at.Underlying().(*types.Interface); isIface {
		ok = t.implPred(at, fmt.Sprintf("(ityp %s)", x))
		val = x
	} else {
		ok = fmt.Sprintf("(= (ityp %s) %s)", x, t.S.tagOf(at))
		val = t.S.unbox(fmt.Sprintf("(ival %s)", x), at)
	}
	if in.CommaOk {
		okv := t.fresh("assertok", "Bool")
		t.define(fmt.Sprintf("(= %s %s)", okv, ok))
		rv := t.fresh("asserted", t.S.sortOf(at))
		t.define(fmt.Sprintf("(= %s (ite %s %s %s))", rv, okv, val, t.S.zero(at)))
		t.assume(t.wf(rv, at))
		t.setVal(in, Val{Tup: []Val{{T: rv}, {T: okv}}})
		return
	}
	t.oblige("safety", "typeassert", "type assertion to "+at.String()+" holds", ok, in.Pos())
	r := t.defineReg(in, val)
	t.assume(t.wf(r.T, at))
}

// implPred: does the dynamic type with this tag implement interface it?
func (t *fnTrans) implPred(it types.Type, tag Term) Term {
	name := "impl_" + typeKey(it)
	if !t.S.declared[name] {
		t.S.declared[name] = true
		t.S.decls = append(t.S.decls, fmt.Sprintf("(declare-fun %s (Int) Bool)", name))
		t.S.axioms = append(t.S.axioms, fmt.Sprintf("(not (%s 0))", name))
		t.eng.implIfaces[name] = it
	}
	t.usedImpl[name] = it
	return fmt.Sprintf("(%s %s)", name, tag)
}

func (t *fnTrans) sliceInstr(in *ssa.Slice) {
	lo, hi, mx := "0", "", ""
	if in.Low != nil {
		lo = t.idxTerm(in.Low)
	}
	if in.High != nil {
		hi = t.idxTerm(in.High)
	}
	if in.Max != nil {
		mx = t.idxTerm(in.Max)
	}
	if lo != "0" {
		t.S.ixArith = true
	}
	switch u := in.X.Type().Underlying().(type) {
	case *types.Slice:
		x := t.term(t.val(in.X))
		if hi == "" {
			hi = fmt.Sprintf("(slen %s)", x)
		}
		cp := fmt.Sprintf("(scap %s)", x)
		if mx != "" {
			t.oblige("safety", "slice", "slice bounds in range", fmt.Sprintf("(and (<= 0 %s) (<= %s %s) (<= %s %s) (<= %s %s))", lo, lo, hi, hi, mx, mx, cp), in.Pos())
			cp = mx
		} else {
			t.oblige("safety", "slice", "slice bounds in range", fmt.Sprintf("(and (<= 0 %s) (<= %s %s) (<= %s %s))", lo, lo, hi, hi, cp), in.Pos())
		}
		off := fmt.Sprintf("(+ (soff %s) %s)", x, lo)
		if lo == "0" {
			off = fmt.Sprintf("(soff %s)", x)
		}
		t.defineReg(in, fmt.Sprintf("(mk_slice (sbase %s) %s (- %s %s) (- %s %s))", x, off, hi, lo, cp, lo))
	case *types.Basic: // string
		x := t.term(t.val(in.X))
		if hi == "" {
			hi = fmt.Sprintf("(strlen %s)", x)
		}
		t.oblige("safety", "slice", "string slice bounds in range", fmt.Sprintf("(and (<= 0 %s) (<= %s %s) (<= %s (strlen %s)))", lo, lo, hi, hi, x), in.Pos())
		if !t.S.declared["str_sub"] {
			t.S.declared["str_sub"] = true
			t.S.decls = append(t.S.decls, "(declare-fun str_sub (Str Int Int) Str)")
		}
		r := t.defineReg(in, fmt.Sprintf("(str_sub %s %s %s)", x, lo, hi))
		t.assume(fmt.Sprintf("(= (strlen %s) (- %s %s))", r.T, hi, lo))
		t.assume(t.wf(r.T, in.Type()))
	case *types.Pointer:
		at := u.Elem().Underlying().(*types.Array)
		base := t.val(in.X)
		var ref Term
		if base.P != nil && base.P.ArrOf != "" && len(base.P.Sels) == 0 {
			ref = base.P.Ref
		} else if base.P == nil {
			ref = base.T
			t.oblige("safety", "nil", "nil dereference: array pointer", fmt.Sprintf("(not (= %s 0))", ref), in.Pos())
		} else {
			t.errorf("slicing an array that is not stored in the elems store at %s", t.posStr(in.Pos()))
			ref = t.fresh("arrbase", "Int")
		}
		n := fmt.Sprint(at.Len())
		if hi == "" {
			hi = n
		}
		cp := n
		if mx != "" {
			cp = mx
		}
		t.oblige("safety", "slice", "slice bounds in range", fmt.Sprintf("(and (<= 0 %s) (<= %s %s) (<= %s %s) (<= %s %s))", lo, lo, hi, hi, cp, cp, n), in.Pos())
		t.defineReg(in, fmt.Sprintf("(mk_slice %s %s (- %s %s) (- %s %s))", ref, lo, hi, lo, cp, lo))
	default:
		t.errorf("Slice on %s", in.X.Type())
	}
}

// lockDiscipline: monitor reasoning is sound only if every writer of a guarded field holds the mutex. A store to a
// field guarded by a lock item (directly, or an update / delete of the map stored in it) is an obligation: the
// executing function holds that mutex of that object in write mode, or it allocated the object itself (construction,
// before publication). Enabled with NSQVC_LOCKDISC=1 (see DESIGN.md).
func (t *fnTrans) lockDiscipline(p *Path, write bool, pos token.Pos) {
	if !t.eng.lockDisc || p == nil || p.Ref == "" || p.ArrOf != "" || len(p.Sels) == 0 || p.Sels[0].Index != "" || p.Sels[0].Struct == nil {
		return
	}
	n, ok := types.Unalias(p.Typ).(*types.Named)
	if !ok || n.Obj().Pkg() == nil {
		return
	}
	fname := p.Sels[0].Struct.Field(p.Sels[0].Field).Name()
	for _, l := range t.eng.contracts.Locks {
		if l.Type != n.Obj().Name() || l.Pkg != n.Obj().Pkg().Path() {
			continue
		}
		guarded := false
		for _, g := range l.Guards {
			if g == fname {
				guarded = true
			}
		}
		if !guarded {
			continue
		}
		lm := t.lockModeVar(l.Type, l.Field)
		mode := fmt.Sprintf("(select %s %s)", t.get(t.cur, lm.Name), p.Ref)
		held := fmt.Sprintf("(>= %s 1)", mode)
		what := "read"
		if write {
			held = fmt.Sprintf("(= %s 2)", mode)
			what = "written"
		}
		cond := fmt.Sprintf("(or %s (> %s %s))", held, p.Ref, t.get(t.entrySt, "alloc"))
		t.oblige("lockdisc", l.Type+"."+l.Field+"."+fname, fmt.Sprintf("field %s.%s is guarded by %s.%s: it is %s only while that mutex is held (or on an object this function allocated)", l.Type, fname, l.Type, l.Field, what), cond, pos)
	}
}

// guardedFieldOf: the location a map value was loaded from, when it is a direct load of a struct field.
func (t *fnTrans) guardedFieldOf(m ssa.Value) *Path {
	ld, ok := m.(*ssa.UnOp)
	if !ok || ld.Op != token.MUL {
		return nil
	}
	if _, ok := ld.X.(*ssa.FieldAddr); !ok {
		return nil
	}
	if v, ok := t.vals[ld.X]; ok && v.P != nil {
		return v.P
	}
	return nil
}

func (t *fnTrans) mapUpdate(in *ssa.MapUpdate) {
	t.lockDiscipline(t.guardedFieldOf(in.Map), true, in.Pos())
	mt := in.Map.Type().Underlying().(*types.Map)
	md, mv, ml := t.mapVars(mt)
	m := t.term(t.val(in.Map))
	k := t.term(t.val(in.Key))
	v := t.term(t.val(in.Value))
	t.oblige("safety", "nilmap", "assignment to entry in nil map", fmt.Sprintf("(not (= %s 0))", m), in.Pos())
	dom := fmt.Sprintf("(select %s %s)", t.get(t.cur, md.Name), m)
	lenNew := fmt.Sprintf("(+ (select %s %s) (ite (select %s %s) 0 1))", t.get(t.cur, ml.Name), m, dom, k)
	t.set(ml.Name, fmt.Sprintf("(store %s %s %s)", t.get(t.cur, ml.Name), m, lenNew))
	t.set(mv.Name, fmt.Sprintf("(store %s %s (store (select %s %s) %s %s))", t.get(t.cur, mv.Name), m, t.get(t.cur, mv.Name), m, k, v))
	t.set(md.Name, fmt.Sprintf("(store %s %s (store %s %s true))", t.get(t.cur, md.Name), m, dom, k))
}

func (t *fnTrans) mapDelete(m, k Term, mt *types.Map) {
	md, _, ml := t.mapVars(mt)
	dom := fmt.Sprintf("(select %s %s)", t.get(t.cur, md.Name), m)
	// delete on nil map is a no-op
	lenNew := fmt.Sprintf("(- (select %s %s) (ite (select %s %s) 1 0))", t.get(t.cur, ml.Name), m, dom, k)
	t.set(ml.Name, fmt.Sprintf("(ite (= %s 0) %s (store %s %s %s))", m, t.get(t.cur, ml.Name), t.get(t.cur, ml.Name), m, lenNew))
	t.set(md.Name, fmt.Sprintf("(ite (= %s 0) %s (store %s %s (store %s %s false)))", m, t.get(t.cur, md.Name), t.get(t.cur, md.Name), m, dom, k))
}

func (t *fnTrans) lookup(in *ssa.Lookup) {
	if mt, ok := in.X.Type().Underlying().(*types.Map); ok {
		md, mv, _ := t.mapVars(mt)
		m := t.term(t.val(in.X))
		k := t.term(t.val(in.Index))
		has := t.fresh("maphas", "Bool")
		t.define(fmt.Sprintf("(= %s (and (not (= %s 0)) (select (select %s %s) %s)))", has, m, t.get(t.cur, md.Name), m, k))
		v := t.fresh("mapval", t.S.sortOf(mt.Elem()))
		t.define(fmt.Sprintf("(= %s (ite %s (select (select %s %s) %s) %s))", v, has, t.get(t.cur, mv.Name), m, k, t.S.zero(mt.Elem())))
		t.assume(t.wf(v, mt.Elem()))
		if in.CommaOk {
			t.setVal(in, Val{Tup: []Val{{T: v}, {T: has}}})
		} else {
			t.setVal(in, Val{T: v})
		}
		return
	}
	// string index
	x := t.term(t.val(in.X))
	i := t.idxTerm(in.Index)
	t.oblige("safety", "index", "string index in range", fmt.Sprintf("(and (<= 0 %s) (< %s (strlen %s)))", i, i, x), in.Pos())
	r := t.defineReg(in, t.fromInt(fmt.Sprintf("(str_at %s %s)", x, i), in.Type()))
	t.assume(t.wf(r.T, in.Type()))
}

func (t *fnTrans) rangeInstr(in *ssa.Range) {
	mt, ok := in.X.Type().Underlying().(*types.Map)
	if !ok {
		t.errorf("range over %s is outside the supported subset", in.X.Type())
		t.setVal(in, Val{T: "0"})
		return
	}
	name := "IT_" + sanitize(in.Name())
	t.stateVar(name, "(Array "+t.S.sortOf(mt.Key())+" Bool)", "cell", false, nil)
	t.declare(name+"_0", "(Array "+t.S.sortOf(mt.Key())+" Bool)")
	t.set(name, fmt.Sprintf("((as const (Array %s Bool)) false)", t.S.sortOf(mt.Key())))
	t.setVal(in, Val{T: t.term(t.val(in.X)), P: nil, Bnd: []Val{{T: name}}})
	t.rangeIters[in] = name
}

func (t *fnTrans) nextInstr(in *ssa.Next) {
	rg, ok := in.Iter.(*ssa.Range)
	if !ok || in.IsString {
		t.errorf("Next over a non-map iterator")
		return
	}
	mt := rg.X.Type().Underlying().(*types.Map)
	md, mv, _ := t.mapVars(mt)
	itName := t.rangeIters[rg]
	m := t.term(t.val(rg.X))
	okv := t.fresh("nextok", "Bool")
	k := t.freshVal("nextkey", mt.Key())
	visited := t.get(t.cur, itName)
	dom := fmt.Sprintf("(select %s %s)", t.get(t.cur, md.Name), m)
	t.assume(fmt.Sprintf("(=> %s (and (not (= %s 0)) (select %s %s) (not (select %s %s))))", okv, m, dom, k, visited, k))
	ks := t.S.sortOf(mt.Key())
	t.assume(fmt.Sprintf("(=> (not %s) (or (= %s 0) (forall ((qk %s)) (! (=> (select %s qk) (select %s qk)) :pattern ((select %s qk))))))", okv, m, ks, dom, visited, dom))
	v := t.fresh("nextval", t.S.sortOf(mt.Elem()))
	t.define(fmt.Sprintf("(= %s (select (select %s %s) %s))", v, t.get(t.cur, mv.Name), m, k))
	t.assume(t.wf(v, mt.Elem()))
	// bound to a constant: an ite at array level is not allowed inside quantifier patterns ({visited(k)} triggers)
	nit := t.fresh(itName+"_nx", "(Array "+ks+" Bool)")
	t.define(fmt.Sprintf("(= %s (ite %s (store %s %s true) %s))", nit, okv, visited, k, visited))
	t.set(itName, nit)
	t.setVal(in, Val{Tup: []Val{{T: okv}, {T: k}, {T: v}}})
}

// ---------- channels (ghost: only lengths are tracked) ----------

// Channels carry ghost counters only: per channel the number of completed sends and receives and the
// last value sent. Contents/ordering are not modelled; a blocking operation is assumed to complete.
func (t *fnTrans) chanVars(ct types.Type) (sent, last, recvd *StateVar) {
	et := ct.Underlying().(*types.Chan).Elem()
	k := typeKey(et)
	sent = t.stateVar("CS_"+k, "(Array Int Int)", "chan", true, nil)
	last = t.stateVar("CV_"+k, "(Array Int "+t.S.sortOf(et)+")", "chan", true, et)
	recvd = t.stateVar("CR_"+k, "(Array Int Int)", "chan", true, nil)
	return
}

// chanClosedVar: per channel, whether close() has been called on it (ghost).
func (t *fnTrans) chanClosedVar(ct types.Type) *StateVar {
	et := ct.Underlying().(*types.Chan).Elem()
	return t.stateVar("CX_"+typeKey(et), "(Array Int Bool)", "chan", true, nil)
}

// chanDrainedVar: per channel, whether the most recent operation of this function on it was a non-blocking
// select with a receive case on it that took the default branch (ghost; spec builtin drained(ch)).
func (t *fnTrans) chanDrainedVar(ct types.Type) *StateVar {
	et := ct.Underlying().(*types.Chan).Elem()
	return t.stateVar("CE_"+typeKey(et), "(Array Int Bool)", "chan", true, nil)
}

// chanListenedVar: per channel, whether the most recent select of this function had a case on it (ghost; spec builtin listened(ch)).
func (t *fnTrans) chanListenedVar(ct types.Type) *StateVar {
	et := ct.Underlying().(*types.Chan).Elem()
	// function-local: not heap, not a channel counter - a callee's own selects do not change what THIS function's last select listened on
	return t.stateVar("CW_"+typeKey(et), "(Array Int Bool)", "chansel", false, nil)
}

func (t *fnTrans) setDrained(ct types.Type, ch Term, val Term) {
	ce := t.chanDrainedVar(ct)
	cur := t.get(t.cur, ce.Name)
	t.set(ce.Name, fmt.Sprintf("(store %s %s %s)", cur, ch, val))
}

func (t *fnTrans) recordSend(ct types.Type, ch, v Term, cond Term) {
	sent, last, _ := t.chanVars(ct)
	if cond == "" {
		t.setDrained(ct, ch, "false")
	} else {
		t.setDrained(ct, ch, fmt.Sprintf("(and (not %s) (select %s %s))", cond, t.get(t.cur, t.chanDrainedVar(ct).Name), ch))
	}
	cs, cv := t.get(t.cur, sent.Name), t.get(t.cur, last.Name)
	if cond == "" {
		t.set(sent.Name, fmt.Sprintf("(store %s %s (+ (select %s %s) 1))", cs, ch, cs, ch))
		t.set(last.Name, fmt.Sprintf("(store %s %s %s)", cv, ch, v))
		return
	}
	// conditional update written as a store of a conditional VALUE (no array-level ite)
	t.set(sent.Name, fmt.Sprintf("(store %s %s (ite %s (+ (select %s %s) 1) (select %s %s)))", cs, ch, cond, cs, ch, cs, ch))
	t.set(last.Name, fmt.Sprintf("(store %s %s (ite %s %s (select %s %s)))", cv, ch, cond, v, cv, ch))
}

func (t *fnTrans) recordRecv(ct types.Type, ch Term, cond Term) {
	_, _, recvd := t.chanVars(ct)
	if cond == "" {
		t.setDrained(ct, ch, "false")
	} else {
		t.setDrained(ct, ch, fmt.Sprintf("(and (not %s) (select %s %s))", cond, t.get(t.cur, t.chanDrainedVar(ct).Name), ch))
	}
	cr := t.get(t.cur, recvd.Name)
	if cond == "" {
		t.set(recvd.Name, fmt.Sprintf("(store %s %s (+ (select %s %s) 1))", cr, ch, cr, ch))
		return
	}
	t.set(recvd.Name, fmt.Sprintf("(store %s %s (ite %s (+ (select %s %s) 1) (select %s %s)))", cr, ch, cond, cr, ch, cr, ch))
}

func (t *fnTrans) chanSend(in *ssa.Send) {
	t.assumptions["channel operations are assumed to complete; only send/receive counts and the last value sent are modelled"] = true
	t.chanInvSend(in.Chan, t.term(t.val(in.X)), "", in.Pos())
	t.recordSend(in.Chan.Type(), t.term(t.val(in.Chan)), t.term(t.val(in.X)), "")
}

// chanFieldKey: the struct field a channel value was loaded from (pkgpath.Type.field), "" if it is not a
// direct field load.
func chanFieldKey(v ssa.Value) string {
	ld, ok := v.(*ssa.UnOp)
	if !ok || ld.Op != token.MUL {
		return ""
	}
	fa, ok := ld.X.(*ssa.FieldAddr)
	if !ok {
		return ""
	}
	pt, ok := fa.X.Type().Underlying().(*types.Pointer)
	if !ok {
		return ""
	}
	n, ok := types.Unalias(pt.Elem()).(*types.Named)
	if !ok || n.Obj().Pkg() == nil {
		return ""
	}
	st, ok := n.Underlying().(*types.Struct)
	if !ok {
		return ""
	}
	return n.Obj().Pkg().Path() + "." + n.Obj().Name() + "." + st.Field(fa.Field).Name()
}

func (t *fnTrans) chanInvTerm(ci *ChanInv, v Term, et types.Type) Term {
	pkg := t.eng.typesPkg(ci.Pkg)
	if pkg == nil {
		pkg = t.fn.Pkg.Pkg
	}
	env := &Env{t: t, st: t.cur, old: t.cur, vars: map[string]bound{ci.Param: {Val{T: v}, et}}, pkg: pkg}
	return env.boolOf(ci.Expr)
}

// chanInvSend: a send into a channel with a `chaninv` must establish the invariant for the value sent.
// chanInvFor: the channel invariant that applies to channel value ch: keyed by the field it was loaded
// from, else by its element type (`chaninv chan[T]`).
func (t *fnTrans) chanInvFor(ch ssa.Value) *ChanInv {
	if ci := t.eng.contracts.ChanInvs[chanFieldKey(ch)]; ci != nil {
		return ci
	}
	ct, ok := ch.Type().Underlying().(*types.Chan)
	if !ok {
		return nil
	}
	return t.eng.chanInvByElem(ct.Elem())
}

func (t *fnTrans) chanInvSend(ch ssa.Value, v Term, cond Term, pos token.Pos) {
	ci := t.chanInvFor(ch)
	if ci == nil {
		return
	}
	et := ch.Type().Underlying().(*types.Chan).Elem()
	c := t.chanInvTerm(ci, v, et)
	if cond != "" {
		c = fmt.Sprintf("(=> %s %s)", cond, c)
	}
	t.usedChanInv[ci.Key] = true
	t.oblige("chaninv", ci.Short, "value sent into "+ci.Short+" satisfies its channel invariant: "+ci.Src, c, pos)
}

// chanInvRecv: a value received from such a channel satisfies the invariant (the sweep obligation
// sweep/chaninv[..] checks that every send is under contract and that the channel is never closed).
func (t *fnTrans) chanInvRecv(ch ssa.Value, v Term, cond Term) {
	ci := t.chanInvFor(ch)
	if ci == nil {
		return
	}
	et := ch.Type().Underlying().(*types.Chan).Elem()
	c := t.chanInvTerm(ci, v, et)
	if cond != "" {
		c = fmt.Sprintf("(=> %s %s)", cond, c)
	}
	t.usedChanInv[ci.Key] = true
	t.assume(c)
}

func (t *fnTrans) chanRecv(in *ssa.UnOp) {
	et := in.X.Type().Underlying().(*types.Chan).Elem()
	v := t.freshVal("recv", et)
	t.recordRecv(in.X.Type(), t.term(t.val(in.X)), "")
	if in.CommaOk {
		ok := t.fresh("recvok", "Bool")
		t.chanInvRecv(in.X, v, ok)
		t.setVal(in, Val{Tup: []Val{{T: v}, {T: ok}}})
		return
	}
	t.chanInvRecv(in.X, v, "")
	t.setVal(in, Val{T: v})
}

func (t *fnTrans) selectInstr(in *ssa.Select) {
	// nondeterministic choice among the cases; received values are arbitrary
	idx := t.fresh("selidx", t.S.sortOf(tInt))
	lo := 0
	if !in.Blocking {
		lo = -1
	}
	if t.S.bv {
		t.assume(fmt.Sprintf("(and (bvsle %s %s) (bvslt %s %s))", t.S.intLit(fmt.Sprint(lo), tInt), idx, idx, t.S.intLit(fmt.Sprint(len(in.States)), tInt)))
	} else {
		los := fmt.Sprint(lo)
		if lo < 0 {
			los = fmt.Sprintf("(- %d)", -lo)
		}
		t.assume(fmt.Sprintf("(and (<= %s %s) (< %s %d))", los, idx, idx, len(in.States)))
	}
	// a case on a nil channel is never chosen
	for i, s := range in.States {
		ch := t.term(t.val(s.Chan))
		t.assume(fmt.Sprintf("(=> (= %s %s) (not (= %s 0)))", idx, t.S.intLit(fmt.Sprint(i), tInt), ch))
	}
	for i, s := range in.States {
		chosen := fmt.Sprintf("(= %s %s)", idx, t.S.intLit(fmt.Sprint(i), tInt))
		if s.Dir == types.SendOnly {
			t.chanInvSend(s.Chan, t.term(t.val(s.Send)), chosen, s.Pos)
			t.recordSend(s.Chan.Type(), t.term(t.val(s.Chan)), t.term(t.val(s.Send)), chosen)
		} else {
			t.recordRecv(s.Chan.Type(), t.term(t.val(s.Chan)), chosen)
		}
	}
	// listened(ch): the most recent select of this function had a case on ch (reset per element type at every select)
	reset := map[string]bool{}
	for _, s := range in.States {
		lv := t.chanListenedVar(s.Chan.Type())
		if !reset[lv.Name] {
			reset[lv.Name] = true
			t.set(lv.Name, "((as const (Array Int Bool)) false)")
		}
	}
	for _, s := range in.States {
		lv := t.chanListenedVar(s.Chan.Type())
		ch := t.term(t.val(s.Chan))
		t.set(lv.Name, fmt.Sprintf("(store %s %s (not (= %s 0)))", t.get(t.cur, lv.Name), ch, ch))
	}
	if !in.Blocking {
		// default taken: every receive case's channel was seen empty
		dflt := fmt.Sprintf("(= %s %s)", idx, t.S.intLit("-1", tInt))
		if !t.S.bv {
			dflt = fmt.Sprintf("(= %s (- 1))", idx)
		}
		for _, s := range in.States {
			if s.Dir == types.RecvOnly {
				ch := t.term(t.val(s.Chan))
				t.setDrained(s.Chan.Type(), ch, fmt.Sprintf("(or %s (select %s %s))", dflt, t.get(t.cur, t.chanDrainedVar(s.Chan.Type()).Name), ch))
			}
		}
	}
	tup := []Val{{T: idx}, {T: t.fresh("selrecvok", "Bool")}}
	for i, s := range in.States {
		if s.Dir == types.RecvOnly {
			et := s.Chan.Type().Underlying().(*types.Chan).Elem()
			rv := t.freshVal("selrecv", et)
			t.chanInvRecv(s.Chan, rv, fmt.Sprintf("(= %s %s)", idx, t.S.intLit(fmt.Sprint(i), tInt)))
			tup = append(tup, Val{T: rv})
		}
	}
	t.setVal(in, Val{Tup: tup})
	t.selects = append(t.selects, in)
}

// ---------- return ----------

func (t *fnTrans) ret(in *ssa.Return) {
	if t.fc == nil {
		return
	}
	if t.fc.NoReturn {
		// never returns: the only obligation at a return instruction is that it is unreachable (callers assume `false` after the call)
		t.oblige("ensures", "does-not-return", "noreturn: no return instruction is reachable", "false", in.Pos())
		return
	}
	t.cover("return")
	env := t.entryEnv(t.cur)
	env.final = t.localEnv(t.cur, t.blk).local
	sig := t.fn.Signature
	for i, r := range in.Results {
		v := Val{T: t.term(t.val(r))}
		ty := sig.Results().At(i).Type()
		if i < len(t.fc.Results) {
			env.vars[t.fc.Results[i]] = bound{v, ty}
		}
		if n := sig.Results().At(i).Name(); n != "" && n != "_" {
			if _, taken := env.vars[n]; !taken {
				env.vars[n] = bound{v, ty}
			}
		}
		env.vars[fmt.Sprintf("result%d", i)] = bound{v, ty}
		if i == 0 {
			if _, taken := env.vars["result"]; !taken {
				env.vars["result"] = bound{v, ty}
			}
		}
	}
	for i, c := range t.fc.Ensures {
		nm := c.Name
		if nm == "" {
			nm = fmt.Sprint(i)
		}
		t.curUses = t.evalUses(c.Uses, t.withLocals(env))
		t.oblige("ensures", nm, c.Src, env.boolOf(c.Expr), in.Pos())
		t.curUses = nil
	}
	t.funcTypeObligations(in)
	// lock balance: a function returns holding exactly the locks it held when it was called (a path that returns with a mutex still
	// locked - or unlocks one it never took - fails here)
	for _, k := range sortedKeys(t.lockSites) {
		ls := t.lockSites[k]
		cur, ent := t.get(t.cur, ls[0]), t.get(t.entrySt, ls[0])
		if cur == ent {
			continue
		}
		t.oblige("lockdisc", "balance."+strings.TrimPrefix(ls[0], "LK_"), "the function returns holding the same locks as at its call ("+strings.TrimPrefix(ls[0], "LK_")+")",
			fmt.Sprintf("(= (select %s %s) (select %s %s))", cur, ls[1], ent, ls[1]), in.Pos())
	}
	t.frame(in.Pos())
}

// frame: every heap array / ghost / global the body changed must be covered by `modifies`.
func (t *fnTrans) frame(pos token.Pos) {
	if t.fc == nil || !t.fc.HasMod {
		return
	}
	for _, name := range sortedKeys(t.vars) {
		if cond := t.frameCond(name, t.cur); cond != "" {
			t.oblige("frame", name, "only locations listed in `modifies` change ("+name+")", cond, pos)
		}
	}
}

// modAllowed: per state variable, the references the contract's `modifies` clause allows to change
// ("*" = the whole variable). Evaluated in the entry state.
func (t *fnTrans) modAllowed() (map[string][]Term, bool) {
	if t.allowedDone {
		return t.allowed, t.allowedAll
	}
	t.allowedDone = true
	t.allowed = map[string][]Term{}
	env := t.entryEnv(t.entrySt)
	for _, item := range t.fc.Modifies {
		for _, mt := range t.resolveMod(item, env) {
			if mt.all {
				t.allowedAll = true
				continue
			}
			if mt.ref == "" {
				t.allowed[mt.name] = append(t.allowed[mt.name], "*")
			} else {
				t.allowed[mt.name] = append(t.allowed[mt.name], mt.ref)
			}
		}
	}
	return t.allowed, t.allowedAll
}

// frameCond: the frame condition of one state variable in state st relative to the entry state
// ("" when the variable may change freely or did not change).
func (t *fnTrans) frameCond(name string, st *State) Term {
	if t.fc == nil || !t.fc.HasMod {
		return ""
	}
	allowed, all := t.modAllowed()
	if all {
		return ""
	}
	sv := t.vars[name]
	if sv == nil || !(sv.Heap || sv.Kind == "ghost") {
		return ""
	}
	if sv.Free && !t.keepsGhost(t.fc, name) {
		return "" // free ghosts are outside the frame unless the contract says `keeps`
	}
	if sv.Kind == "chan" && !t.fc.NoChan && !t.fc.HasChans {
		return "" // channel counters are outside the frame unless the contract says `nochan` or `chans ...`
	}
	cur := t.get(st, name)
	if cur == name+"_0" {
		return ""
	}
	refs := allowed[name]
	if sv.Kind == "chan" && t.fc.HasChans {
		refs = append(append([]Term{}, refs...), t.chansAllowed(t.fc, t.entryEnv(t.entrySt))[name]...)
	}
	for _, r := range refs {
		if r == "*" {
			return ""
		}
	}
	if strings.HasPrefix(sv.Sort, "(Array Int") {
		ex := ""
		for _, r := range refs {
			ex += fmt.Sprintf(" (not (= fr %s))", r)
		}
		a0 := t.get(t.entrySt, "alloc")
		if sv.Kind == "elems" {
			// array-typed fields live at the negative index -(ref*1024+id): those of objects allocated by this call are fresh too
			ex += fmt.Sprintf(" (or (>= fr 0) (<= (div (- 0 fr) 1024) %s))", a0)
		}
		return fmt.Sprintf("(forall ((fr Int)) (! (=> (and (<= fr %s)%s) (= (select %s fr) (select %s_0 fr))) :pattern ((select %s fr))))", a0, ex, cur, name, cur)
	}
	return fmt.Sprintf("(= %s %s_0)", cur, name)
}

// chansAllowed: for a contract with a `chans` clause, per channel-ghost state variable the channel references the function may
// operate on (evaluated in env: the entry state of the function itself, or the pre-state at a call site).
func (t *fnTrans) chansAllowed(fc *FuncContract, env *Env) map[string][]Term {
	out := map[string][]Term{}
	for _, item := range fc.Chans {
		x, err := parseSpec(item)
		if err != nil {
			t.errorf("chans %q: %v", item, err)
			continue
		}
		v, ty := env.eval(x)
		if _, ok := ty.Underlying().(*types.Chan); !ok {
			t.errorf("chans %q: not a channel", item)
			continue
		}
		a, b, c := t.chanVars(ty)
		names := []string{a.Name, b.Name, c.Name, t.chanClosedVar(ty).Name, t.chanDrainedVar(ty).Name,
			t.stateVar("CL_"+typeKey(ty), "(Array Int Int)", "chan", true, nil).Name}
		for _, n := range names {
			out[n] = append(out[n], v.T)
		}
	}
	return out
}

// keepsGhost: does contract fc promise (clause `keeps`) to leave the free ghost with state variable `name` unchanged?
// A name in `keeps` stands for its whole ghostgroup.
func (t *fnTrans) keepsGhost(fc *FuncContract, name string) bool {
	if fc == nil {
		return false
	}
	for _, k := range fc.Keeps {
		if "gh_"+sanitize(k) == name {
			return true
		}
		for _, n := range t.eng.contracts.ghostClosure(k) {
			if "gh_"+sanitize(n) == name {
				return true
			}
		}
	}
	return false
}
