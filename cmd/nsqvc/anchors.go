package main

// Anchor coverage: for the files a property is anchored in (properties.jsonl, anchors.files), which of their
// functions carry a contract serving this property, a contract serving other properties only, a trusted stub,
// or no contract at all. Reported in the evidence so that the unverified surroundings are named.

import (
	"bufio"
	"encoding/json"
	"go/ast"
	"go/parser"
	"go/token"
	"os"
	"path/filepath"
	"sort"
	"strings"
)

// anchorFiles: the files (relative to the repository root) property prop is anchored in (properties.jsonl, anchors.files).
func anchorFiles(prop string) []string {
	f, err := os.Open(filepath.Join(verifDir, "properties.jsonl"))
	if err != nil {
		return nil
	}
	defer f.Close()
	var files []string
	sc := bufio.NewScanner(f)
	sc.Buffer(make([]byte, 1<<20), 1<<24)
	for sc.Scan() {
		var rec struct {
			ID      string `json:"id"`
			Anchors struct {
				Files []string `json:"files"`
			} `json:"anchors"`
		}
		if json.Unmarshal(sc.Bytes(), &rec) == nil && rec.ID == prop {
			files = rec.Anchors.Files
		}
	}
	return files
}

func anchorCoverage(e *Engine, prop string) map[string]interface{} {
	files := anchorFiles(prop)
	out := map[string]interface{}{}
	totalNo, totalThis := 0, 0
	for _, rel := range files {
		path := filepath.Join(e.repo, rel)
		fset := token.NewFileSet()
		af, err := parser.ParseFile(fset, path, nil, 0)
		if err != nil {
			out[rel] = "not a Go file of the repository (or unreadable)"
			continue
		}
		pkgPath := e.module + "/" + filepath.ToSlash(filepath.Dir(rel))
		var this, other, trusted, none, closures []string
		for _, d := range af.Decls {
			fd, ok := d.(*ast.FuncDecl)
			if !ok || fd.Body == nil {
				continue
			}
			recv := ""
			if fd.Recv != nil && len(fd.Recv.List) == 1 {
				t := fd.Recv.List[0].Type
				if st, ok := t.(*ast.StarExpr); ok {
					t = st.X
				}
				if id, ok := t.(*ast.Ident); ok {
					recv = id.Name
				}
			}
			name := fd.Name.Name
			disp := name
			if recv != "" {
				disp = recv + "." + name
			}
			var fc *FuncContract
			for _, c := range e.contracts.Funcs {
				if c.Extern || c.PkgPath != pkgPath || c.Name != name {
					continue
				}
				if strings.TrimPrefix(c.RecvType, "*") == recv {
					fc = c
				}
			}
			if fc == nil {
				// a function that only builds closures (decorators, worker fan-outs): are its closures under contract?
				for _, c := range e.contracts.Funcs {
					if !c.Extern && c.PkgPath == pkgPath && strings.HasPrefix(c.Name, name+"$") && strings.TrimPrefix(c.RecvType, "*") == recv && !c.Trusted {
						closures = append(closures, disp)
						fc = c
						break
					}
				}
				if fc != nil {
					continue
				}
			}
			switch {
			case fc == nil:
				none = append(none, disp)
			case fc.Trusted:
				trusted = append(trusted, disp)
			case hasProp(fc.Props, prop):
				this = append(this, disp)
			default:
				other = append(other, disp)
			}
		}
		sort.Strings(this)
		sort.Strings(other)
		sort.Strings(trusted)
		sort.Strings(none)
		sort.Strings(closures)
		totalNo += len(none)
		totalThis += len(this)
		out[rel] = map[string]interface{}{
			"verified_contract_serving_this_property":     this,
			"verified_contract_serving_other_properties":  other,
			"trusted_stub_body_not_verified":              trusted,
			"no_contract_not_verified":                    none,
			"only_its_closures_under_contract":            closures,
		}
	}
	out["_summary"] = map[string]int{"functions_with_contract_for_this_property": totalThis, "functions_without_contract": totalNo}
	return out
}
