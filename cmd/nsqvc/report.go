package main

// Verdicts, known findings, evidence.

import (
	"go/token"
	"encoding/json"
	"fmt"
	"go/types"
	"os"
	"path/filepath"
	"sort"
	"strings"

	"golang.org/x/tools/go/ssa"
)

func (t *fnTrans) cover(what string) {
	t.siteN["cover"]++
	o := &Obligation{Name: fmt.Sprintf("%s/cover[%s]#%d", t.name, what, t.siteN["cover"]), Fn: t.name, Kind: "cover",
		Block: t.blk.Index, NCons: len(t.cons), Cond: "false", Desc: "reachability (vacuity guard): " + what}
	t.obls = append(t.obls, o)
}

func (t *fnTrans) addCovers() {}

// lemmaTrans: closed lemma obligations of a property, proved from the declared axioms only.
func (e *Engine) lemmaTrans(prop string) *fnTrans {
	var ls []*Lemma
	for _, l := range e.contracts.Lemmas {
		if !l.Axiom && hasProp(l.Props, prop) {
			ls = append(ls, l)
		}
	}
	if len(ls) == 0 {
		return nil
	}
	t := &fnTrans{eng: e, name: "lemma", vars: map[string]*StateVar{}, loopMod: map[int]map[string]bool{}, loopModAll: map[int]bool{}}
	t.S = newSorts(false, e.inRepo)
	t.declared = map[string]bool{}
	t.siteN = map[string]int{}
	t.assumptions = map[string]bool{}
	t.usedImpl = map[string]types.Type{}
	t.usedImmut = map[string]bool{}
	t.preds = map[int][]int{}
	t.blk = &ssa.BasicBlock{Index: 0}
	t.declare("reach_0", "Bool")
	t.cons = append(t.cons, constraint{0, false, "reach_0"})
	t.cur = &State{m: map[string]Term{}}
	t.entrySt = t.cur
	for _, l := range ls {
		pkg := e.typesPkg(l.Pkg)
		env := &Env{t: t, st: t.cur, old: t.cur, vars: map[string]bound{}, pkg: pkg}
		t.useAxioms(env, l.Clause.Src, pkg)
		o := &Obligation{Name: "lemma/" + l.Name, Fn: "lemma", Kind: "lemma", Block: 0, NCons: len(t.cons),
			Cond: env.boolOf(l.Clause.Expr), Desc: l.Clause.Src, Pos: fmt.Sprintf("%s:%d", filepath.Base(l.Clause.File), l.Clause.Line), Props: l.Props}
		t.obls = append(t.obls, o)
	}
	if len(t.errs) > 0 {
		fmt.Fprintln(os.Stderr, "nsqvc: lemma errors:", strings.Join(t.errs, "; "))
	}
	return t
}

// useAxioms adds every declared axiom of the package (and global ones) to the VC context.
func (t *fnTrans) useAxioms(env *Env, _ string, pkg *types.Package) {
	for _, l := range t.eng.contracts.Lemmas {
		if !l.Axiom {
			continue
		}
		if l.Pkg != "" && pkg != nil && l.Pkg != pkg.Path() {
			continue
		}
		if t.usedAxioms == nil {
			t.usedAxioms = map[string]bool{}
		}
		if t.usedAxioms[l.Name] {
			continue
		}
		t.usedAxioms[l.Name] = true
		ae := &Env{t: t, st: env.st, old: env.old, vars: map[string]bound{}, pkg: env.pkg}
		if l.OptIn {
			continue
		}
		t.axiomTerms = append(t.axiomTerms, ae.boolOf(l.Clause.Expr))
	}
}

type finding struct {
	Fixed      bool
	Property   string
	Obligation string
	What       string
	Raw        string
}

func readFindings() []finding {
	data, err := os.ReadFile(filepath.Join(verifDir, "known_findings.txt"))
	if err != nil {
		return nil
	}
	var fs []finding
	for _, l := range strings.Split(string(data), "\n") {
		l = strings.TrimSpace(l)
		if l == "" || strings.HasPrefix(l, "#") {
			continue
		}
		f := finding{Raw: l}
		switch {
		case strings.HasPrefix(l, "finding:"):
			l = strings.TrimSpace(strings.TrimPrefix(l, "finding:"))
		case strings.HasPrefix(l, "fixed:"):
			f.Fixed = true
			l = strings.TrimSpace(strings.TrimPrefix(l, "fixed:"))
		default:
			continue
		}
		for _, fld := range strings.Fields(l) {
			if strings.HasPrefix(fld, "property=") {
				f.Property = strings.TrimPrefix(fld, "property=")
			}
			if strings.HasPrefix(fld, "obligation=") {
				f.Obligation = strings.TrimPrefix(fld, "obligation=")
			}
		}
		if i := strings.Index(l, "what="); i >= 0 {
			f.What = l[i+5:]
		}
		fs = append(fs, f)
	}
	return fs
}

type Report struct {
	DepFuncs    []string // functions included because a function of the property relies on their verified contract
	Anchors     map[string]interface{}
	Prop        string
	Tier        string
	Obligations int
	Discharged  int
	Bounded     int
	Covers      int
	CoverFail   []string
	BySolver    map[string]int
	SolverMS    int64
	Funcs       []string
	Failed      []*Obligation
	Known       []string
	Violations  int
	ViolLines   []string
	EngineFault bool
	Faults      []string
	Samples     []map[string]interface{}
	Assumptions []string
	Trusted     []string
	Missing     []string
	WallS       float64
	Lemmas      int
	Slow        []string
	Canaries    []map[string]interface{}
	CrossOK     int
}

func buildReport(e *Engine, prop, tier string, ts []*fnTrans, trusted []*FuncContract, out string, noReplay, full bool) *Report {
	r := &Report{Prop: prop, Tier: tier, BySolver: map[string]int{}}
	findings := readFindings()
	assume := map[string]bool{}
	trust := map[string]bool{}
	generated := map[string]bool{}
	for _, fc := range trusted {
		trust["assumed contract (not verified): "+fc.Name+" in "+fc.PkgPath] = true
	}
	for _, t := range ts {
		if t.fn != nil {
			r.Funcs = append(r.Funcs, t.name)
		}
		for a := range t.assumptions {
			assume[t.name+": "+a] = true
		}
		for k := range t.opaqueCalls {
			assume[t.name+": opaque call (arbitrary effect on heap, arbitrary result): "+k] = true
		}
		for k := range t.usedBenign {
			trust["benign library call (no effect on modelled state, arbitrary result): "+k] = true
		}
		for k := range t.usedExterns {
			trust["assumed library contract: "+k] = true
		}
		for k, fc := range t.usedContracts {
			if fc.Trusted && !fc.Extern {
				trust["assumed contract (trusted, body not verified): "+k] = true
			}
		}
		if t.fc != nil {
			for _, c := range t.fc.Requires {
				assume[t.name+": requires "+c.Src] = true
			}
		}
		for _, o := range t.obls {
			if o.Kind == "cover" {
				r.Covers++
				if o.Result == "unsat" {
					r.CoverFail = append(r.CoverFail, o.Name)
				}
				continue
			}
			generated[o.Name] = true
			r.Obligations++
			if o.Kind == "lemma" {
				r.Lemmas++
			}
			r.SolverMS += o.TimeMS
			if o.TimeMS > 1500 {
				r.Slow = append(r.Slow, fmt.Sprintf("%s %dms %s", o.Name, o.TimeMS, o.Solver))
			}
			if o.Result == "unsat" {
				if o.Confirmed >= 2 {
					r.CrossOK++
				}
				r.Discharged++
				r.BySolver[o.Solver]++
				if len(r.Samples) < 12 && o.Kind != "safety" {
					r.Samples = append(r.Samples, map[string]interface{}{"obligation": o.Name, "clause": o.Desc, "at": o.Pos, "solver": o.Solver, "ms": o.TimeMS, "result": "unsat (discharged)"})
				}
				continue
			}
			r.Failed = append(r.Failed, o)
		}
	}
	// locked obligations must all be generated
	if full && os.Getenv("NSQVC_NO_LOCK") == "" { // (NSQVC_NO_LOCK: development aid on scratch copies; never set by the registered checks)
		for _, name := range readLock()[prop] {
			if !generated[name] {
				r.Missing = append(r.Missing, name)
			}
		}
	}
	os.MkdirAll(filepath.Join(out, "replay"), 0o755)
	for _, o := range r.Failed {
		known := false
		for _, f := range findings {
			if !f.Fixed && f.Property == prop && f.Obligation == o.Name {
				known = true
				r.Known = append(r.Known, fmt.Sprintf("KNOWN-FINDING: property=%s %s — %s", prop, o.Name, f.What))
			}
		}
		if known {
			r.Obligations--
			continue
		}
		var t *fnTrans
		for _, x := range ts {
			if x.name == o.Fn {
				t = x
			}
		}
		path := filepath.Join(out, "replay", fileSafe(o.Name)+".txt")
		reproduced := writeReplay(e, t, o, path, noReplay)
		line := fmt.Sprintf("VIOLATION property=%s replay=%s", prop, path)
		if !reproduced {
			line += " no-failing-input-found"
		}
		r.ViolLines = append(r.ViolLines, line)
		r.Violations++
	}
	for _, m := range r.Missing {
		path := filepath.Join(out, "replay", "missing_"+fileSafe(m)+".txt")
		os.WriteFile(path, []byte("locked obligation was not generated from the current tree (contract clause, loop or function disappeared): "+m+"\n"), 0o644)
		r.ViolLines = append(r.ViolLines, fmt.Sprintf("VIOLATION property=%s replay=%s no-failing-input-found", prop, path))
		r.Violations++
	}
	for _, c := range r.CoverFail {
		r.Faults = append(r.Faults, "vacuity: unreachable under the contract's assumptions: "+c)
		r.EngineFault = true
	}
	if len(r.CoverFail) > 0 && r.Violations == 0 {
		// No obligation failed, yet a return / loop head that is reachable on the unchanged tree (every cover query passes there:
		// a run with a cover failure is never accepted) is now unreachable under the contracts the function relies on: the code
		// contradicts an assumed callee contract, lock invariant or its own precondition on every path to that point. Reported as
		// a violation of the obligation `<fn>/cover[..]` (no input: the contradiction is between code and contracts).
		for _, c := range r.CoverFail {
			path := filepath.Join(out, "replay", "cover_"+fileSafe(c)+".txt")
			os.WriteFile(path, []byte("obligation: "+c+"\nkind: cover (reachability / vacuity guard)\nverdict: the point is unreachable under the contract's assumptions although no other obligation failed.\n"+
				"On the unchanged tree this query is satisfiable; the change made the code contradict the contracts it relies on (callee contracts, lock invariants, preconditions),\n"+
				"so every clause after the contradiction holds vacuously. no-failing-input-found\n"), 0o644)
			r.ViolLines = append(r.ViolLines, fmt.Sprintf("VIOLATION property=%s replay=%s no-failing-input-found", prop, path))
			r.Violations++
		}
	}
	for a := range assume {
		r.Assumptions = append(r.Assumptions, a)
	}
	sort.Strings(r.Assumptions)
	for a := range trust {
		r.Trusted = append(r.Trusted, a)
	}
	sort.Strings(r.Trusted)
	sort.Strings(r.Funcs)
	return r
}

func (r *Report) print(verbose bool) {
	fmt.Printf("property %s tier %s: %d functions under contract, %d obligations, %d discharged, %d cover checks, %.1fs solver time\n",
		r.Prop, r.Tier, len(r.Funcs), r.Obligations, r.Discharged, r.Covers, float64(r.SolverMS)/1000)
	for _, o := range r.Failed {
		fmt.Printf("  FAILED %-8s %s  (%s) at %s: %s\n", o.Result, o.Name, o.Solver, o.Pos, o.Desc)
	}
	for _, f := range r.Faults {
		fmt.Println("  FAULT", f)
	}
	if verbose {
		for _, s := range r.Slow {
			fmt.Println("  SLOW", s)
		}
		for _, a := range r.Assumptions {
			if strings.Contains(a, "opaque call") {
				fmt.Println("  OPAQUE", a)
			}
		}
	}
	for _, k := range r.Known {
		fmt.Println(k)
	}
	for _, c := range r.Canaries {
		fmt.Printf("  canary %v: detected=%v %v%v\n", c["seed"], c["detected"], c["failed_obligations"], c["error"])
	}
	for _, l := range r.ViolLines {
		fmt.Println(l)
	}
}

func (r *Report) writeEvidence(path string) error {
	os.MkdirAll(filepath.Dir(path), 0o755)
	seed := 0
	fmt.Sscan(os.Getenv("VERIF_SEED"), &seed)
	samples := r.Samples
	for _, o := range r.Failed {
		samples = append(samples, map[string]interface{}{"obligation": o.Name, "clause": o.Desc, "at": o.Pos, "result": o.Result, "solver": o.Solver})
	}
	if samples == nil {
		samples = []map[string]interface{}{}
	}
	base := []string{
		"nsqvc's own VC generator (cmd/nsqvc) and its semantics of Go SSA: part of the trusted base, exercised by the must-fail corpus",
		"Go compiler, runtime and go/ssa builder (naive form); SMT solvers z3 4.8.12, z3 5.1.0, cvc5 1.0",
		"function-granular sequential reasoning; lock-protected state by monitor invariants; no liveness, timing, fairness, deadlock or data-race claims",
	}
	ev := map[string]interface{}{
		"property_id": r.Prop,
		"tier":        r.Tier,
		"seed":        seed,
		"level":       "proof",
		"coverage": map[string]interface{}{
			"obligations":              r.Obligations,
			"discharged":               r.Discharged,
			"checker_cmd":              fmt.Sprintf("/verif/bin/nsqvc check -prop %s -tier %s", r.Prop, r.Tier),
			"trusted_base":             append(base, r.Trusted...),
			"functions_under_contract": r.Funcs,
			"functions_included_by_dependency": r.DepFuncs,
			"by_solver":                r.BySolver,
			"solver_time_s":            float64(r.SolverMS) / 1000,
			"bounded_obligations":      r.Bounded,
			"lemmas":                   r.Lemmas,
			"cover_checks":             r.Covers,
			"cover_failures":           r.CoverFail,
			"known_findings_hit":       r.Known,
			"missing_locked":           r.Missing,
			"samples":                  samples,
			"canaries":                 r.Canaries,
			"confirmed_by_second_solver": r.CrossOK,
			"anchor_files": r.Anchors,
		},
		"assumptions": r.Assumptions,
		"wall_s":      r.WallS,
		"violations":  r.Violations,
	}
	data, err := json.MarshalIndent(ev, "", " ")
	if err != nil {
		return err
	}
	return os.WriteFile(path, append(data, '\n'), 0o644)
}

// evalUses: opt-in axioms of a clause. `name` adds the quantified axiom, `name(args)` adds the
// instance obtained by binding the axiom's outermost universal variables to the arguments.
func (t *fnTrans) evalUses(uses []Expr, env *Env) []Term {
	var out []Term
	find := func(name string) *Lemma {
		for _, l := range t.eng.contracts.Lemmas {
			if l.Axiom && l.Name == name {
				return l
			}
		}
		t.errorf("uses: unknown axiom %s", name)
		return nil
	}
	for _, u := range uses {
		switch u := u.(type) {
		case *EIdent:
			if l := find(u.Name); l != nil {
				ae := &Env{t: t, st: env.st, old: env.old, vars: map[string]bound{}, pkg: env.pkgOf(l.Pkg)}
				out = append(out, ae.boolOf(l.Clause.Expr))
			}
		case *ECall:
			l := find(u.Fun)
			if l == nil {
				continue
			}
			q, ok := l.Clause.Expr.(*EQuant)
			if !ok || !q.Forall || len(q.Vars) != len(u.Args) {
				t.errorf("uses %s: axiom must be a forall over %d variables", u.Fun, len(u.Args))
				continue
			}
			ae := &Env{t: t, st: env.st, old: env.old, vars: map[string]bound{}, pkg: env.pkgOf(l.Pkg)}
			for i, qv := range q.Vars {
				ty := t.eng.resolveType(qv.Type, ae.pkg)
				if ty == nil {
					t.errorf("uses %s: unknown type %s", u.Fun, qv.Type)
					continue
				}
				v, vt := env.eval(u.Args[i])
				ae.vars[qv.Name] = bound{Val{T: env.coerce(v, vt, ty)}, ty}
			}
			out = append(out, ae.boolOf(q.Body))
		default:
			t.errorf("uses: bad item")
		}
	}
	return out
}

// withLocals: an entry environment that can also see the live local cells at the current block.
func (t *fnTrans) withLocals(env *Env) *Env {
	le := t.localEnv(env.st, t.blk)
	n := *env
	n.local = le.local
	return &n
}

// immutableSweep: fields declared `immutable` may only be written in constructor-like functions
// (functions that allocate an object of that struct type). Every other write in the loaded
// repository packages is reported as a failed obligation.
func (e *Engine) immutableSweep(used map[string]bool, prop string) *fnTrans {
	t := &fnTrans{eng: e, name: "sweep", vars: map[string]*StateVar{}}
	t.S = newSorts(false, e.inRepo)
	checked := 0
	for _, key := range sortedKeys(used) {
		var hits []string
		for path, sp := range e.ssaPkgs {
			if !e.built[path] {
				continue
			}
			var fns []*ssa.Function
			var collect func(f *ssa.Function)
			collect = func(f *ssa.Function) {
				fns = append(fns, f)
				for _, a := range f.AnonFuncs {
					collect(a)
				}
			}
			for _, m := range sp.Members {
				switch m := m.(type) {
				case *ssa.Function:
					collect(m)
				case *ssa.Type:
					for _, recv := range []types.Type{m.Type(), types.NewPointer(m.Type())} {
						ms := e.prog.MethodSets.MethodSet(recv)
						for i := 0; i < ms.Len(); i++ {
							if f := e.prog.MethodValue(ms.At(i)); f != nil && f.Pkg == sp {
								collect(f)
							}
						}
					}
				}
			}
			seen := map[*ssa.Function]bool{}
			for _, f := range fns {
				if seen[f] || len(f.Blocks) == 0 {
					continue
				}
				seen[f] = true
				allocates := map[string]bool{}
				for _, b := range f.Blocks {
					for _, in := range b.Instrs {
						if a, ok := in.(*ssa.Alloc); ok {
							if n, ok := types.Unalias(a.Type().(*types.Pointer).Elem()).(*types.Named); ok && n.Obj().Pkg() != nil {
								allocates[n.Obj().Pkg().Path()+"."+n.Obj().Name()] = true
							}
						}
					}
				}
				for _, b := range f.Blocks {
					for _, in := range b.Instrs {
						st, ok := in.(*ssa.Store)
						if !ok {
							continue
						}
						fa, ok := st.Addr.(*ssa.FieldAddr)
						if !ok {
							continue
						}
						pt, ok := fa.X.Type().Underlying().(*types.Pointer)
						if !ok {
							continue
						}
						n, ok := types.Unalias(pt.Elem()).(*types.Named)
						if !ok || n.Obj().Pkg() == nil {
							continue
						}
						tk := n.Obj().Pkg().Path() + "." + n.Obj().Name()
						fname := n.Underlying().(*types.Struct).Field(fa.Field).Name()
						if tk+"."+fname != key {
							continue
						}
						if allocates[tk] || e.contracts.Ctors[e.displayName(f)] {
							continue // constructor-like, or a declared start-up function
						}
						hits = append(hits, fmt.Sprintf("%s at %s", e.displayName(f), e.fset.Position(st.Pos())))
					}
				}
			}
		}
		checked++
		short := key[strings.LastIndex(key[:strings.LastIndex(key, ".")], "/")+1:]
		o := &Obligation{Name: "sweep/immutable[" + short + "]", Fn: "sweep", Kind: "sweep", Desc: "field declared immutable is written only by constructors", Props: []string{prop}}
		if len(hits) == 0 {
			o.Result, o.Solver = "unsat", "ssa-sweep"
		} else {
			sort.Strings(hits)
			o.Result, o.Solver = "violated", "ssa-sweep"
			o.Outputs = map[string]string{"ssa-sweep": "writes outside constructors: " + strings.Join(hits, "; ")}
			o.Desc += ": " + strings.Join(hits, "; ")
		}
		t.obls = append(t.obls, o)
	}
	if checked == 0 {
		return nil
	}
	return t
}

// repoFunctions: every function (methods and closures included) of the loaded repository packages.
func (e *Engine) repoFunctions() []*ssa.Function {
	var fns []*ssa.Function
	seen := map[*ssa.Function]bool{}
	var collect func(f *ssa.Function)
	collect = func(f *ssa.Function) {
		if f == nil || seen[f] {
			return
		}
		seen[f] = true
		fns = append(fns, f)
		for _, a := range f.AnonFuncs {
			collect(a)
		}
	}
	for _, path := range sortedKeys(e.built) {
		sp := e.ssaPkgs[path]
		if sp == nil || !e.built[path] {
			continue
		}
		var names []string
		for n := range sp.Members {
			names = append(names, n)
		}
		sort.Strings(names)
		for _, n := range names {
			switch m := sp.Members[n].(type) {
			case *ssa.Function:
				collect(m)
			case *ssa.Type:
				for _, recv := range []types.Type{m.Type(), types.NewPointer(m.Type())} {
					ms := e.prog.MethodSets.MethodSet(recv)
					for i := 0; i < ms.Len(); i++ {
						if f := e.prog.MethodValue(ms.At(i)); f != nil && f.Pkg == sp {
							collect(f)
						}
					}
				}
			}
		}
	}
	return fns
}

// chanInvSweep: a `chaninv` on Type.field is assumed at receives; that is justified when (1) every send
// into a channel loaded from that field happens in a function under (non-trusted) contract, where it is an
// obligation, and (2) the channel is never closed (a receive from a closed channel yields the zero value).
// Sends through an alias (a local or parameter holding the channel) cannot be attributed to a field:
// sends of the same element type through such values are listed in the obligation text as unchecked.
func (e *Engine) chanInvSweep(used map[string]bool, prop string) *fnTrans {
	if len(used) == 0 {
		return nil
	}
	t := &fnTrans{eng: e, name: "sweep", vars: map[string]*StateVar{}}
	t.S = newSorts(false, e.inRepo)
	fns := e.repoFunctions()
	for _, key := range sortedKeys(used) {
		ci := e.contracts.ChanInvs[key]
		var hits, aliased []string
		var elem types.Type
		note := func(f *ssa.Function, ch ssa.Value, pos token.Pos, what string) {
			k := chanFieldKey(ch)
			ct, ok := ch.Type().Underlying().(*types.Chan)
			if !ok {
				return
			}
			if ci.ElemText != "" {
				// keyed by element type: every channel of that element type counts (unless a field-keyed
				// invariant takes precedence for it)
				if e.chanInvByElem(ct.Elem()) != ci || (k != "" && e.contracts.ChanInvs[k] != nil) {
					return
				}
				k = key
			}
			if k == key {
				elem = ct.Elem()
				if what == "close" {
					hits = append(hits, fmt.Sprintf("close in %s at %s", e.displayName(f), e.fset.Position(pos)))
					return
				}
				fc := e.contractOf(f)
				if fc == nil || fc.Trusted {
					hits = append(hits, fmt.Sprintf("send outside verified contracts in %s at %s", e.displayName(f), e.fset.Position(pos)))
				}
				return
			}
			if k == "" && what == "send" {
				aliased = append(aliased, fmt.Sprintf("%s|%s at %s", types.TypeString(ct.Elem(), nil), e.displayName(f), e.fset.Position(pos)))
			}
		}
		for _, f := range fns {
			for _, b := range f.Blocks {
				for _, in := range b.Instrs {
					switch in := in.(type) {
					case *ssa.Send:
						note(f, in.Chan, in.Pos(), "send")
					case *ssa.Select:
						for _, s := range in.States {
							if s.Dir == types.SendOnly {
								note(f, s.Chan, s.Pos, "send")
							}
						}
					case *ssa.Call:
						if bi, ok := in.Call.Value.(*ssa.Builtin); ok && bi.Name() == "close" && len(in.Call.Args) == 1 {
							note(f, in.Call.Args[0], in.Pos(), "close")
						}
					}
				}
			}
		}
		o := &Obligation{Name: "sweep/chaninv[" + ci.Short + "]", Fn: "sweep", Kind: "sweep", Props: []string{prop},
			Desc: "every send into " + ci.Short + " is an obligation of a verified function and such a channel is never closed"}
		var unchecked []string
		if elem != nil {
			es := types.TypeString(elem, nil)
			for _, a := range aliased {
				if strings.HasPrefix(a, es+"|") {
					unchecked = append(unchecked, strings.TrimPrefix(a, es+"|"))
				}
			}
		}
		if len(unchecked) > 0 {
			sort.Strings(unchecked)
			t.assumptionsInit()
			t.assumptions["chaninv "+ci.Short+": sends of the same element type through a channel held in a local or parameter are not attributed to the field and not checked: "+strings.Join(unchecked, "; ")] = true
		}
		if len(hits) == 0 {
			o.Result, o.Solver = "unsat", "ssa-sweep"
		} else {
			sort.Strings(hits)
			o.Result, o.Solver = "violated", "ssa-sweep"
			o.Outputs = map[string]string{"ssa-sweep": strings.Join(hits, "; ")}
			o.Desc += ": " + strings.Join(hits, "; ")
		}
		t.obls = append(t.obls, o)
	}
	return t
}

func (t *fnTrans) assumptionsInit() {
	if t.assumptions == nil {
		t.assumptions = map[string]bool{}
	}
}
