package main

// Calls: builtins, locks, atomics, callee contracts (modular), trusted externs, benign and opaque calls.

import (
	"os"
	"fmt"
	"go/constant"
	"go/token"
	"go/types"
	"strings"

	"golang.org/x/tools/go/ssa"
)

func constOfValue(v ssa.Value) constant.Value {
	if c, ok := v.(*ssa.Const); ok {
		return c.Value
	}
	return nil
}

func (t *fnTrans) resultVal(ty types.Type, prefix string) Val {
	if tup, ok := ty.(*types.Tuple); ok {
		if tup.Len() == 0 {
			return Val{}
		}
		var vs []Val
		for i := 0; i < tup.Len(); i++ {
			vs = append(vs, Val{T: t.freshVal(prefix, tup.At(i).Type())})
		}
		return Val{Tup: vs}
	}
	return Val{T: t.freshVal(prefix, ty)}
}

func calleeKey(c *ssa.CallCommon) string {
	if c.IsInvoke() {
		return "(" + types.TypeString(c.Value.Type(), nil) + ")." + c.Method.Name()
	}
	if f := c.StaticCallee(); f != nil {
		return f.String()
	}
	return ""
}

func (t *fnTrans) call(c *ssa.CallCommon, res ssa.Value, pos token.Pos) Val {
	var resTy types.Type = c.Signature().Results()
	if c.Signature().Results().Len() == 1 {
		resTy = c.Signature().Results().At(0).Type()
	}
	if b, ok := c.Value.(*ssa.Builtin); ok {
		return t.builtin(b, c, res, pos)
	}
	key := calleeKey(c)
	if t.fc != nil && t.fc.NoReturn && t.inl == nil {
		t.cover("call " + key) // vacuity guard of a `noreturn` function: its calls are reachable
	}
	// argument values (receiver first for invoke)
	var args []Val
	var argTys []types.Type
	if c.IsInvoke() {
		args = append(args, t.val(c.Value))
		argTys = append(argTys, c.Value.Type())
		t.oblige("safety", "nil", "method call on nil interface: "+c.Method.Name(), fmt.Sprintf("(not (= (ityp %s) 0))", t.term(args[0])), pos)
	}
	for _, a := range c.Args {
		args = append(args, t.val(a))
		argTys = append(argTys, a.Type())
	}
	fn := c.StaticCallee()
	if fn == nil && !c.IsInvoke() {
		// call through a function-typed struct field: keyed `fieldfunc:<pkgpath>.<Type>.<field>` so that
		// contracts (extern) and benign entries can name it
		if ld, ok := c.Value.(*ssa.UnOp); ok && ld.Op == token.MUL {
			if fa, ok := ld.X.(*ssa.FieldAddr); ok {
				if pt, ok := fa.X.Type().Underlying().(*types.Pointer); ok {
					if n, ok := types.Unalias(pt.Elem()).(*types.Named); ok && n.Obj().Pkg() != nil {
						key = "fieldfunc:" + n.Obj().Pkg().Path() + "." + n.Obj().Name() + "." + n.Underlying().(*types.Struct).Field(fa.Field).Name()
					}
				}
			}
		}
	}
	if fn == nil && !c.IsInvoke() {
		// call of a function value: statically known closure?
		v := t.val(c.Value)
		if v.Fn == nil {
			v = t.capturedClosure(c.Value, v)
		}
		if v.Fn != nil {
			fn = v.Fn
			key = fn.String()
			args = append(append([]Val{}, args...), v.Bnd...)
		}
	}
	if fn == nil && !c.IsInvoke() && key == "" {
		// dynamic call through a value of a named function type: the type's contract (extern functype:...) if any
		if k := funcTypeKey(c.Value.Type()); k != "" {
			if fc, _ := t.eng.contracts.lookupExtern(k, t.callerPkgPath()); fc != nil {
				key = k
				for _, ft := range t.eng.funcTypeSpecs() {
					if ft.key == k {
						ver, unver := t.eng.funcTypeImpls(ft)
						t.assumptions[fmt.Sprintf("dynamic call of a %s value: the type contract is assumed; it is an obligation of the %d implementations under contract and NOT checked for: %s", strings.TrimPrefix(k, "functype:"), len(ver), strings.Join(unver, ", "))] = true
					}
				}
			}
		}
	}
	if key == "(*github.com/nsqio/nsq/internal/util.WaitGroupWrapper).Wrap" {
		t.wrapSpawn(c, pos)
	}
	// built-in models
	if r, ok := t.modelCall(key, fn, args, argTys, resTy, pos); ok {
		return r
	}
	// an extern scoped to the caller's package (`extern[in pkg]`) is the contract assumed there, even when
	// the callee has a verified contract of its own (which may be weaker, e.g. without a frame)
	if fc, ok := t.eng.contracts.Externs[key+"@"+t.callerPkgPath()]; ok {
		t.usedExterns[key+"@"+t.callerPkgPath()] = true
		if fn != nil {
			if own := t.eng.contractOf(fn); own != nil && !own.Extern {
				// the callee is a repository function under contract: its own verification stays part of every property that
				// calls it through the scoped extern (the extern is an assumption ABOUT that function, listed in the evidence)
				if t.shadowed == nil {
					t.shadowed = map[string]*FuncContract{}
				}
				t.shadowed[key] = own
			}
		}
		return t.applyContract(fc, key, c.Signature(), fn, args, argTys, resTy, pos)
	}
	if fn != nil {
		if fc := t.eng.contractOf(fn); fc != nil {
			return t.applyContract(fc, key, fn.Signature, fn, args, argTys, resTy, pos)
		}
	}
	if fc, mk := t.eng.contracts.lookupExtern(key, t.callerPkgPath()); fc != nil {
		t.usedExterns[mk] = true
		return t.applyContract(fc, key, c.Signature(), fn, args, argTys, resTy, pos)
	}
	if t.eng.isBenign(key) {
		t.usedBenign[key] = true
		return t.resultVal(resTy, "benign")
	}
	if c.StaticCallee() != nil && t.inlinable(fn) {
		return t.inlineCall(fn, args, resTy)
	}
	// opaque
	if key == "" {
		key = "dynamic call at " + t.posStr(pos)
	}
	t.opaqueCalls[key] = true
	t.havocAll(key)
	return t.resultVal(resTy, "opaque")
}

func (t *fnTrans) builtin(b *ssa.Builtin, c *ssa.CallCommon, res ssa.Value, pos token.Pos) Val {
	arg := func(i int) Term { return t.term(t.val(c.Args[i])) }
	switch b.Name() {
	case "len":
		x := arg(0)
		var r Term
		switch u := c.Args[0].Type().Underlying().(type) {
		case *types.Slice:
			r = fmt.Sprintf("(slen %s)", x)
		case *types.Basic:
			r = fmt.Sprintf("(strlen %s)", x)
		case *types.Map:
			_, _, ml := t.mapVars(u)
			r = fmt.Sprintf("(ite (= %s 0) 0 (select %s %s))", x, t.get(t.cur, ml.Name), x)
			t.assume(fmt.Sprintf("(>= %s 0)", r))
		case *types.Array:
			r = fmt.Sprint(u.Len())
		case *types.Pointer:
			r = fmt.Sprint(u.Elem().Underlying().(*types.Array).Len())
		case *types.Chan:
			cl := t.stateVar("CL_"+typeKey(c.Args[0].Type()), "(Array Int Int)", "chan", true, nil)
			r = fmt.Sprintf("(select %s %s)", t.get(t.cur, cl.Name), x)
			t.assume(fmt.Sprintf("(>= %s 0)", r))
		default:
			t.errorf("len of %s", c.Args[0].Type())
			r = "0"
		}
		return Val{T: t.fromInt(r, tInt)}
	case "cap":
		x := arg(0)
		switch u := c.Args[0].Type().Underlying().(type) {
		case *types.Slice:
			return Val{T: t.fromInt(fmt.Sprintf("(scap %s)", x), tInt)}
		case *types.Array:
			return Val{T: t.fromInt(fmt.Sprint(u.Len()), tInt)}
		}
		return Val{T: t.freshVal("cap", tInt)}
	case "append":
		return t.appendCall(c, pos)
	case "copy":
		return t.copyCall(c, pos)
	case "delete":
		t.lockDiscipline(t.guardedFieldOf(c.Args[0]), true, pos)
		mt := c.Args[0].Type().Underlying().(*types.Map)
		t.mapDelete(arg(0), arg(1), mt)
		return Val{}
	case "close":
		// close(c): recorded in the ghost flag closed(c)
		cx := t.chanClosedVar(c.Args[0].Type())
		t.set(cx.Name, fmt.Sprintf("(store %s %s true)", t.get(t.cur, cx.Name), arg(0)))
		t.assumptions["close(chan): closing a nil or an already closed channel (run-time panics) is not checked"] = true
		return Val{}
	case "print", "println":
		return Val{}
	case "min", "max":
		x, y := arg(0), arg(1)
		ty := c.Args[0].Type()
		op := token.LEQ
		if b.Name() == "max" {
			op = token.GEQ
		}
		return Val{T: fmt.Sprintf("(ite %s %s %s)", t.binop(op, x, y, ty, ty, nil, pos), x, y)}
	case "ssa:wrapnilchk":
		x := arg(0)
		t.oblige("safety", "nil", "nil receiver in method value", fmt.Sprintf("(not (= %s 0))", x), pos)
		return Val{T: x}
	case "ssa:deferstack":
		return Val{T: "0"}
	case "recover":
		return Val{T: "iface_nil"}
	}
	t.errorf("unsupported builtin %s", b.Name())
	return Val{}
}

func (t *fnTrans) appendCall(c *ssa.CallCommon, pos token.Pos) Val {
	t.S.ixArith = true
	st := c.Args[0].Type().Underlying().(*types.Slice)
	ev := t.elemsVar(st.Elem())
	s := t.term(t.val(c.Args[0]))
	var add Term // number of appended elements
	var src Term // source slice (or string)
	srcIsStr := false
	if isString(c.Args[1].Type()) {
		srcIsStr = true
		src = t.term(t.val(c.Args[1]))
		add = fmt.Sprintf("(strlen %s)", src)
	} else {
		src = t.term(t.val(c.Args[1]))
		add = fmt.Sprintf("(slen %s)", src)
	}
	// result: either in place (enough capacity) or reallocated
	r := t.fresh("appended", "Slice")
	nb := t.newRef()
	newLen := fmt.Sprintf("(+ (slen %s) %s)", s, add)
	fits := fmt.Sprintf("(<= %s (scap %s))", newLen, s)
	ncap := t.fresh("appcap", "Int")
	t.assume(fmt.Sprintf("(and (>= %s %s) (<= %s 4611686018427387904))", ncap, newLen, ncap))
	t.define(fmt.Sprintf("(= %s (ite %s (mk_slice (sbase %s) (soff %s) %s (scap %s)) (mk_slice %s 0 %s %s)))", r, fits, s, s, newLen, s, nb, newLen, ncap))
	// contents: resulting backing array holds old elements then the new ones
	E := t.get(t.cur, ev.Name)
	E2 := t.fresh(ev.Name+"_app", ev.Sort)
	es := t.S.sortOf(st.Elem())
	_ = es
	var srcAt func(j Term) Term
	if srcIsStr {
		srcAt = func(j Term) Term { return fmt.Sprintf("(str_at %s %s)", src, j) }
	} else {
		srcAt = func(j Term) Term { return fmt.Sprintf("(select (select %s (sbase %s)) (ix (soff %s) %s))", E, src, src, j) }
	}
	rb := fmt.Sprintf("(sbase %s)", r)
	ro := fmt.Sprintf("(soff %s)", r)
	// other backing arrays unchanged
	t.assume(fmt.Sprintf("(forall ((qb Int)) (! (=> (not (= qb %s)) (= (select %s qb) (select %s qb))) :pattern ((select %s qb))))", rb, E2, E, E2))
	// old prefix preserved (and, in place, everything outside the appended window)
	t.assume(fmt.Sprintf("(forall ((qi Int)) (! (=> (and (<= 0 qi) (< qi (slen %s))) (= (select (select %s %s) (ix %s qi)) (select (select %s (sbase %s)) (ix (soff %s) qi)))) :pattern ((select (select %s %s) (ix %s qi)))))", s, E2, rb, ro, E, s, s, E2, rb, ro))
	t.assume(fmt.Sprintf("(=> %s (forall ((qi Int)) (! (=> (or (< qi (+ (soff %s) (slen %s))) (>= qi (+ (soff %s) %s))) (= (select (select %s %s) qi) (select (select %s %s) qi))) :pattern ((select (select %s %s) qi)))))", fits, s, s, s, newLen, E2, rb, E, rb, E2, rb))
	t.assume(fmt.Sprintf("(forall ((qa Int)) (! (=> (and (<= (+ %s (slen %s)) qa) (< qa (+ %s (slen %s) %s))) (= (select (select %s %s) qa) %s)) :pattern ((select (select %s %s) qa))))", ro, s, ro, s, add, E2, rb, srcAt(fmt.Sprintf("(- qa (+ %s (slen %s)))", ro, s)), E2, rb))
	t.set(ev.Name, E2)
	return Val{T: r}
}

func (t *fnTrans) copyCall(c *ssa.CallCommon, pos token.Pos) Val {
	t.S.ixArith = true
	dt := c.Args[0].Type().Underlying().(*types.Slice)
	ev := t.elemsVar(dt.Elem())
	d := t.term(t.val(c.Args[0]))
	src := t.term(t.val(c.Args[1]))
	var n Term
	E := t.get(t.cur, ev.Name)
	var srcAt func(j Term) Term
	if isString(c.Args[1].Type()) {
		n = fmt.Sprintf("(ite (<= (slen %s) (strlen %s)) (slen %s) (strlen %s))", d, src, d, src)
		srcAt = func(j Term) Term { return fmt.Sprintf("(str_at %s %s)", src, j) }
	} else {
		n = fmt.Sprintf("(ite (<= (slen %s) (slen %s)) (slen %s) (slen %s))", d, src, d, src)
		srcAt = func(j Term) Term { return fmt.Sprintf("(select (select %s (sbase %s)) (ix (soff %s) %s))", E, src, src, j) }
	}
	nv := t.fresh("copied", "Int")
	t.define(fmt.Sprintf("(= %s %s)", nv, n))
	E2 := t.fresh(ev.Name+"_cp", ev.Sort)
	db := fmt.Sprintf("(sbase %s)", d)
	t.assume(fmt.Sprintf("(forall ((qb Int)) (! (=> (not (= qb %s)) (= (select %s qb) (select %s qb))) :pattern ((select %s qb))))", db, E2, E, E2))
	t.assume(fmt.Sprintf("(forall ((qi Int)) (! (= (select (select %s %s) qi) (ite (and (<= (soff %s) qi) (< qi (+ (soff %s) %s))) %s (select (select %s %s) qi))) :pattern ((select (select %s %s) qi))))",
		E2, db, d, d, nv, srcAt(fmt.Sprintf("(- qi (soff %s))", d)), E, db, E2, db))
	t.set(ev.Name, E2)
	return Val{T: t.fromInt(nv, tInt)}
}

// ---------- built-in models: locks, atomics ----------

func (t *fnTrans) modelCall(key string, fn *ssa.Function, args []Val, argTys []types.Type, resTy types.Type, pos token.Pos) (Val, bool) {
	switch key {
	case "(*sync.Mutex).Lock", "(*sync.RWMutex).Lock", "(*sync.RWMutex).RLock":
		t.lockOp(args[0], true, key, pos)
		return Val{}, true
	case "(*sync.Mutex).Unlock", "(*sync.RWMutex).Unlock", "(*sync.RWMutex).RUnlock":
		t.lockOp(args[0], false, key, pos)
		return Val{}, true
	}
	if key == "encoding/json.Unmarshal" || key == "(*encoding/json.Decoder).Decode" ||
		strings.HasSuffix(key, "/internal/http_api.Client).GETV1") || strings.HasSuffix(key, "/internal/http_api.Client).POSTV1") {
		// decoding writes only exported fields of the struct it is given. Scalar fields get arbitrary
		// values; if the target was allocated by this function (a fresh, still zero struct), pointer /
		// slice / map fields get arbitrary values too and existing objects are untouched (the decoder
		// allocates what it fills). Otherwise fall through to the opaque treatment.
		v := args[len(args)-1]
		if v.IfaceT != nil {
			if pt, ok := v.IfaceT.Underlying().(*types.Pointer); ok {
				if st, ok := pt.Elem().Underlying().(*types.Struct); ok && !t.S.opaqueStruct(pt.Elem()) && v.IfaceV != "" {
					simple := true
					for i := 0; i < st.NumFields(); i++ {
						f := st.Field(i)
						if !f.Exported() {
							continue
						}
						switch f.Type().Underlying().(type) {
						case *types.Basic:
						default:
							simple = false
						}
					}
					freshTarget := strings.HasPrefix(v.IfaceV, "new_")
					if simple || freshTarget {
						// the decoder may allocate
						na := t.fresh("alloc_dec", "Int")
						t.assume(fmt.Sprintf("(>= %s %s)", na, t.get(t.cur, "alloc")))
						t.set("alloc", na)
						for i := 0; i < st.NumFields(); i++ {
							f := st.Field(i)
							if !f.Exported() {
								continue
							}
							if _, isArr := f.Type().Underlying().(*types.Array); isArr {
								continue
							}
							fv := t.fieldVar(pt.Elem(), i)
							nv := t.freshVal("dec_"+f.Name(), f.Type())
							t.set(fv.Name, fmt.Sprintf("(store %s %s %s)", t.get(t.cur, fv.Name), v.IfaceV, nv))
						}
						t.usedExterns[key+" (model: writes only the exported fields of the target struct; objects it allocates are arbitrary)"] = true
						return t.resultVal(resTy, "decerr"), true
					}
				}
			}
		}
	}
	if key == "encoding/binary.Read" && len(args) == 3 && args[2].IfaceT != nil {
		// binary.Read(r, order, &x): writes the fixed-size value x points to, nothing else
		if pt, ok := args[2].IfaceT.Underlying().(*types.Pointer); ok {
			if _, basic := pt.Elem().Underlying().(*types.Basic); basic && args[2].IfaceV != "" {
				dv := t.derefVar(pt.Elem())
				nv := t.freshVal("binread", pt.Elem())
				t.set(dv.Name, fmt.Sprintf("(store %s %s %s)", t.get(t.cur, dv.Name), args[2].IfaceV, nv))
				t.usedExterns[key+" (model: writes only the value its third argument points to)"] = true
				return t.resultVal(resTy, "binerr"), true
			}
		}
	}
	if strings.HasPrefix(key, "sync/atomic.") {
		name := strings.TrimPrefix(key, "sync/atomic.")
		if len(args) == 0 {
			return Val{}, false
		}
		pt, ok := argTys[0].Underlying().(*types.Pointer)
		if !ok {
			return Val{}, false
		}
		p := args[0].P
		if p == nil {
			p = &Path{Ref: args[0].T, Typ: pt.Elem()}
		}
		et := pt.Elem()
		switch {
		case strings.HasPrefix(name, "Load"):
			t.nilCheck(p, pos, "atomic load")
			v, _ := t.loadPath(t.cur, p)
			r := t.fresh("atomicload", t.S.sortOf(et))
			t.define(fmt.Sprintf("(= %s %s)", r, v))
			t.assume(t.wf(r, et))
			return Val{T: r}, true
		case strings.HasPrefix(name, "Store"):
			t.nilCheck(p, pos, "atomic store")
			t.storePath(p, t.term(args[1]))
			return Val{}, true
		case strings.HasPrefix(name, "Add"):
			t.nilCheck(p, pos, "atomic add")
			v, _ := t.loadPath(t.cur, p)
			old := t.fresh("atomicold", t.S.sortOf(et))
			t.define(fmt.Sprintf("(= %s %s)", old, v))
			t.assume(t.wf(old, et))
			nv := t.intBinop(token.ADD, old, t.term(args[1]), et, et, nil, pos)
			r := t.fresh("atomicadd", t.S.sortOf(et))
			t.define(fmt.Sprintf("(= %s %s)", r, nv))
			t.storePath(p, r)
			return Val{T: r}, true
		case strings.HasPrefix(name, "CompareAndSwap"):
			t.nilCheck(p, pos, "atomic cas")
			v, _ := t.loadPath(t.cur, p)
			ok := t.fresh("casok", "Bool")
			t.define(fmt.Sprintf("(= %s (= %s %s))", ok, v, t.term(args[1])))
			t.storePath(p, fmt.Sprintf("(ite %s %s %s)", ok, t.term(args[2]), v))
			return Val{T: ok}, true
		case strings.HasPrefix(name, "Swap"):
			v, _ := t.loadPath(t.cur, p)
			old := t.fresh("swapold", t.S.sortOf(et))
			t.define(fmt.Sprintf("(= %s %s)", old, v))
			t.assume(t.wf(old, et))
			t.storePath(p, t.term(args[1]))
			return Val{T: old}, true
		}
	}
	return Val{}, false
}

// capturedClosure: the called value is loaded from a variable of the ENCLOSING function that this function literal captures
// (`exitFunc := func(err error) {..}` in Main, called as `exitFunc(..)` inside the goroutine literals of Main). When that variable is
// assigned exactly once in the enclosing function, and with a function literal, the call is a static call of that literal; its captured
// variables are the enclosing function's variables - the ones this literal captures too are passed on, the others are unknown cells.
func (t *fnTrans) capturedClosure(callee ssa.Value, v Val) Val {
	ld, ok := callee.(*ssa.UnOp)
	if !ok || ld.Op != token.MUL {
		return v
	}
	fv, ok := ld.X.(*ssa.FreeVar)
	if !ok || t.fn.Parent() == nil {
		return v
	}
	idx := -1
	for i, f := range t.fn.FreeVars {
		if f == fv {
			idx = i
		}
	}
	if idx < 0 {
		return v
	}
	parent := t.fn.Parent()
	var mine *ssa.MakeClosure
	for _, b := range parent.Blocks {
		for _, in := range b.Instrs {
			if mc, ok := in.(*ssa.MakeClosure); ok && mc.Fn == t.fn {
				if mine != nil {
					return v // created at two places: bindings may differ
				}
				mine = mc
			}
		}
	}
	if mine == nil || idx >= len(mine.Bindings) {
		return v
	}
	cell, ok := mine.Bindings[idx].(*ssa.Alloc)
	if !ok || cell.Referrers() == nil {
		return v
	}
	// exactly one store into the captured variable, of a function literal; every other use is a capture or a load
	var lit *ssa.MakeClosure
	for _, r := range *cell.Referrers() {
		switch x := r.(type) {
		case *ssa.Store:
			if x.Addr != cell || lit != nil {
				return v
			}
			mc, ok := x.Val.(*ssa.MakeClosure)
			if !ok {
				return v
			}
			// the assignment comes before this literal is created (so the variable is set whenever this literal runs)
			if x.Block() == mine.Block() {
				si, mi := -1, -1
				for i, in := range x.Block().Instrs {
					if in == ssa.Instruction(x) {
						si = i
					}
					if in == ssa.Instruction(mine) {
						mi = i
					}
				}
				if si < 0 || mi < 0 || si > mi {
					return v
				}
			} else if !x.Block().Dominates(mine.Block()) {
				return v
			}
			lit = mc
		case *ssa.MakeClosure, *ssa.UnOp, *ssa.DebugRef:
		default:
			return v
		}
	}
	if lit == nil {
		return v
	}
	// a literal that captures the variable could assign it: look for stores through the captured pointer in the literals of the parent
	for _, af := range parent.AnonFuncs {
		for _, b := range af.Blocks {
			for _, in := range b.Instrs {
				if st, ok := in.(*ssa.Store); ok {
					if f, ok := st.Addr.(*ssa.FreeVar); ok && f.Name() == fv.Name() && f.Type() == fv.Type() {
						return v
					}
				}
			}
		}
	}
	fn := lit.Fn.(*ssa.Function)
	var bnd []Val
	for _, lb := range lit.Bindings {
		found := false
		for j, mb := range mine.Bindings {
			if mb == lb && j < len(t.fn.FreeVars) {
				bnd = append(bnd, t.val(t.fn.FreeVars[j]))
				found = true
				break
			}
		}
		if !found {
			n := t.fresh("capt", "Int")
			t.assume(fmt.Sprintf("(and (< 0 %s) (<= %s %s))", n, n, t.get(t.cur, "alloc")))
			bnd = append(bnd, Val{T: n})
		}
	}
	return Val{T: v.T, Fn: fn, Bnd: bnd}
}

// lockOp: monitor reasoning. At Lock the guarded fields of that object are arbitrary and the
// lock invariant is assumed; at Unlock the invariant and the two-state guarantee are obligations.
func (t *fnTrans) lockOp(m Val, acquire bool, key string, pos token.Pos) {
	p := m.P
	if p == nil || p.Ref == "" || len(p.Sels) == 0 {
		t.assumptions["lock operation on a mutex without a lock item (function-local or unmodelled) at "+t.posStr(pos)] = true
		if p != nil && p.Ref != "" && p.ArrOf == "" {
			t.anonLockMode(p.Ref, acquire, key)
		} else if p == nil && m.T != "" {
			t.anonLockMode(m.T, acquire, key)
		}
		if acquire && t.fc != nil {
			// a function-local mutex (captured by worker closures): the function's `lockassume`
			// clauses state its monitor invariant; they are assumptions, reported as such
			le := t.entryEnv(t.cur)
			for _, c := range t.fc.LockAssumes {
				t.assume(le.boolOf(c.Expr))
				t.assumptions["assumed after lock acquisition, not checked: "+c.Src] = true
			}
		}
		return
	}
	// mutex identity: struct type + path of field names
	var names []string
	for _, s := range p.Sels {
		if s.Index != "" {
			t.assumptions["lock in array at "+t.posStr(pos)+" unmodelled"] = true
			return
		}
		names = append(names, s.Struct.Field(s.Field).Name())
	}
	stName := ""
	if n, ok := types.Unalias(p.Typ).(*types.Named); ok {
		stName = n.Obj().Name()
	}
	var ls *LockSpec
	for _, l := range t.eng.contracts.Locks {
		if l.Type == stName && l.Field == strings.Join(names, ".") && l.Pkg == pkgPathOf(p.Typ) {
			ls = l
		}
	}
	if ls == nil {
		t.assumptions[fmt.Sprintf("no lock invariant declared for %s.%s (lock/unlock is a no-op for the proof except for the lock-balance obligations)", stName, strings.Join(names, "."))] = true
		if addr := t.fieldAddrTerm(p); addr != "" {
			t.anonLockMode(addr, acquire, key)
		}
		return
	}
	t.usedLocks[stName+"."+ls.Field] = true
	self := p.Ref
	// ghost lock mode of this mutex of this object: 0 not held by this function, 1 read-locked, 2 write-locked
	// (spec builtins holds(x, "field") / holdsw(x, "field"))
	lm := t.lockModeVar(stName, ls.Field)
	if t.lockSites == nil {
		t.lockSites = map[string][2]string{}
	}
	t.lockSites[lm.Name+"|"+self] = [2]string{lm.Name, self}
	if acquire {
		// sync mutexes are not reentrant: a function that acquires a mutex does not hold it already (the opposite - a second Lock
		// by the same goroutine - blocks for ever and is excluded here; callees that lock say `requires !holds(..)` where it matters)
		t.assume(fmt.Sprintf("(= (select %s %s) 0)", t.get(t.cur, lm.Name), self))
		mode := "2"
		if strings.HasSuffix(key, ".RLock") {
			mode = "1"
		}
		t.set(lm.Name, fmt.Sprintf("(store %s %s %s)", t.get(t.cur, lm.Name), self, mode))
	}
	// (on release the mode is cleared AFTER the invariant / guarantee obligations, which may mention holds()/holdsw())
	st := p.Typ.Underlying().(*types.Struct)
	lockPkg := t.eng.typesPkg(ls.Pkg)
	guardedVars := func() []*StateVar {
		var vs []*StateVar
		for _, g := range ls.Guards {
			if strings.HasPrefix(g, "mapsof(") {
				continue
			}
			for i := 0; i < st.NumFields(); i++ {
				if st.Field(i).Name() == g {
					vs = append(vs, t.fieldVar(p.Typ, i))
				}
			}
		}
		return vs
	}
	// whole map stores protected by the lock (contents of maps reachable from the guarded fields)
	guardedMaps := func() []*StateVar {
		var vs []*StateVar
		for _, g := range ls.Guards {
			if !strings.HasPrefix(g, "mapsof(") {
				continue
			}
			ty := t.eng.resolveType(strings.TrimSuffix(strings.TrimPrefix(g, "mapsof("), ")"), lockPkg)
			if ty == nil {
				t.errorf("lock %s.%s: unknown map type in %s", ls.Type, ls.Field, g)
				continue
			}
			mt, ok := ty.Underlying().(*types.Map)
			if !ok {
				t.errorf("lock %s.%s: %s is not a map type", ls.Type, ls.Field, g)
				continue
			}
			a, b, c := t.mapVars(mt)
			vs = append(vs, a, b, c)
		}
		return vs
	}
	havocMaps := func(tag string) {
		for _, sv := range guardedMaps() {
			t.set(sv.Name, t.fresh(sv.Name+tag, sv.Sort))
		}
	}
	mkEnv := func(state, old *State) *Env {
		e := &Env{t: t, st: state, old: old, vars: map[string]bound{}, pkg: t.eng.typesPkg(ls.Pkg)}
		e.vars["self"] = bound{Val{T: self}, types.NewPointer(p.Typ)}
		return e
	}
	lockGhost := func(g QVar) (bound, bool) {
		gty := t.eng.resolveType(g.Type, lockPkg)
		if gty == nil {
			t.errorf("lock %s.%s: ghostparam %s: unknown type %s", stName, ls.Field, g.Name, g.Type)
			return bound{}, false
		}
		key := stName + "." + ls.Field + "." + g.Name
		if t.lockGhosts == nil {
			t.lockGhosts = map[string]bound{}
		}
		b, ok := t.lockGhosts[key]
		if !ok {
			n := "lg_" + sanitize(key)
			t.declare(n, t.S.sortOf(gty))
			t.cons = append(t.cons, constraint{0, false, t.wf(n, gty)})
			b = bound{Val{T: n}, gty}
			t.lockGhosts[key] = b
			t.ghostParams = append(t.ghostParams, b)
			if _, taken := t.params[g.Name]; !taken {
				t.params[g.Name] = b.v
				t.paramTy[g.Name] = gty
			}
		}
		return b, true
	}
	if acquire {
		for _, g := range ls.Ghosts {
			lockGhost(g)
		}
		for _, sv := range guardedVars() {
			nv := t.fresh(sv.Name+"_lk", t.S.sortOf(sv.Typ))
			t.assume(t.wf(nv, sv.Typ))
			t.set(sv.Name, fmt.Sprintf("(store %s %s %s)", t.get(t.cur, sv.Name), self, nv))
		}
		havocMaps("_lk")
		env := mkEnv(t.cur, nil)
		for _, c := range ls.Invariants {
			t.assume(env.boolOf(c.Expr))
		}
		for _, c := range ls.Assumes {
			t.assume(env.boolOf(c.Expr))
			t.assumptions[fmt.Sprintf("lock %s.%s: assumed at acquisition, not checked: %s", stName, ls.Field, c.Src)] = true
		}
		if t.fc != nil {
			le := t.entryEnv(t.cur)
			for _, c := range t.fc.LockAssumes {
				t.assume(le.boolOf(c.Expr))
				t.assumptions["assumed after lock acquisition, not checked: "+c.Src] = true
			}
		}
		for name := range t.vars {
			t.cur.m["atlock:"+name] = t.get(t.cur, name)
			t.cur.m["atlock."+ls.Field+":"+name] = t.get(t.cur, name)
			t.cur.m["atlock."+stName+"."+ls.Field+":"+name] = t.get(t.cur, name)
		}
		return
	}
	// release
	snap := &State{m: map[string]Term{}}
	for name := range t.vars {
		// the acquisition of THIS mutex (another mutex may have been taken in between)
		if _, ok := t.cur.m["atlock."+stName+"."+ls.Field+":"+name]; ok {
			snap.m[name] = t.get(t.cur, "atlock."+stName+"."+ls.Field+":"+name)
		} else {
			snap.m[name] = t.get(t.cur, "atlock:"+name)
		}
	}
	env := mkEnv(t.cur, snap)
	for _, g := range ls.Ghosts {
		if b, ok := lockGhost(g); ok {
			env.vars[g.Name] = b
		}
	}
	for i, c := range ls.Invariants {
		nm := c.Name
		if nm == "" {
			nm = fmt.Sprint(i)
		}
		t.oblige("lock", fmt.Sprintf("%s.%s.invariant.%s", stName, ls.Field, nm), c.Src, env.boolOf(c.Expr), pos)
	}
	for i, c := range ls.Guarantees {
		nm := c.Name
		if nm == "" {
			nm = fmt.Sprint(i)
		}
		t.oblige("lock", fmt.Sprintf("%s.%s.guarantee.%s", stName, ls.Field, nm), c.Src, env.boolOf(c.Expr), pos)
	}
	t.set(lm.Name, fmt.Sprintf("(store %s %s 0)", t.get(t.cur, lm.Name), self))
	for name := range t.vars {
		t.cur.m["atunlock:"+name] = t.get(t.cur, name)
		t.cur.m["atunlock."+ls.Field+":"+name] = t.get(t.cur, name)
		t.cur.m["atunlock."+stName+"."+ls.Field+":"+name] = t.get(t.cur, name)
	}
	// after release other goroutines may change the guarded state
	havocMaps("_ul")
	for _, sv := range guardedVars() {
		nv := t.fresh(sv.Name+"_ul", t.S.sortOf(sv.Typ))
		t.assume(t.wf(nv, sv.Typ))
		t.set(sv.Name, fmt.Sprintf("(store %s %s %s)", t.get(t.cur, sv.Name), self, nv))
	}
}

// anonLockMode: a mutex without a lock item (function-local, captured by worker closures, or a struct field nobody declared): nothing is known
// about what it guards, but the lock-balance obligations apply to it as to every other mutex - the function returns (and every loop iteration
// ends) holding it exactly as it did at the start. The mode is kept per mutex address in the ghost array LK_anon.
func (t *fnTrans) anonLockMode(addr Term, acquire bool, key string) {
	if os.Getenv("NSQVC_NO_ANONLOCK") != "" {
		return
	}
	lm := t.stateVar("LK_anon", "(Array Int Int)", "lockmode", false, nil)
	if t.lockSites == nil {
		t.lockSites = map[string][2]string{}
	}
	t.lockSites[lm.Name+"|"+addr] = [2]string{lm.Name, addr}
	if acquire {
		t.assume(fmt.Sprintf("(= (select %s %s) 0)", t.get(t.cur, lm.Name), addr)) // not reentrant
		mode := "2"
		if strings.HasSuffix(key, ".RLock") {
			mode = "1"
		}
		t.set(lm.Name, fmt.Sprintf("(store %s %s %s)", t.get(t.cur, lm.Name), addr, mode))
		return
	}
	t.set(lm.Name, fmt.Sprintf("(store %s %s 0)", t.get(t.cur, lm.Name), addr))
}

// lockModeVar: per lock item, the mode in which the executing function holds that mutex of each object.
// Not heap: callees are assumed to return with their lock operations balanced.
func (t *fnTrans) lockModeVar(stName, field string) *StateVar {
	return t.stateVar("LK_"+sanitize(stName)+"_"+sanitize(field), "(Array Int Int)", "lockmode", false, nil)
}

func pkgPathOf(ty types.Type) string {
	if n, ok := types.Unalias(ty).(*types.Named); ok && n.Obj().Pkg() != nil {
		return n.Obj().Pkg().Path()
	}
	return ""
}

// ---------- contracts at call sites ----------

type modTarget struct {
	all  bool
	name string // state var
	ref  Term   // "" = whole variable
}

func (t *fnTrans) resolveMod(item string, env *Env) []modTarget {
	item = strings.TrimSpace(item)
	if item == "*" {
		return []modTarget{{all: true}}
	}
	if strings.HasPrefix(item, "mapstore(") && strings.HasSuffix(item, ")") {
		// every map of that type (whole store)
		if ty := t.eng.resolveType(item[len("mapstore("):len(item)-1], env.pkg); ty != nil {
			if mt, ok := ty.Underlying().(*types.Map); ok {
				md, mv, ml := t.mapVars(mt)
				return []modTarget{{name: md.Name}, {name: mv.Name}, {name: ml.Name}}
			}
		}
		t.errorf("modifies %q: not a map type", item)
		return []modTarget{{all: true}}
	}
	if strings.HasPrefix(item, "chanstore(") && strings.HasSuffix(item, ")") {
		// ghost counters of every channel with that element type
		if ty := t.eng.resolveType("chan "+item[len("chanstore("):len(item)-1], env.pkg); ty != nil {
			a, b, c := t.chanVars(ty)
			return []modTarget{{name: a.Name}, {name: b.Name}, {name: c.Name}}
		}
		t.errorf("modifies %q: unknown element type", item)
		return []modTarget{{all: true}}
	}
	for _, pre := range []string{"elems(", "deref("} {
		if strings.HasPrefix(item, pre) && strings.HasSuffix(item, ")") {
			inner := strings.TrimSpace(item[len(pre) : len(item)-1])
			_, isVar := env.vars[inner]
			_, isPrm := env.prm[inner]
			if !isVar && !isPrm {
				if ty := t.eng.resolveType(inner, env.pkg); ty != nil {
					if pre == "elems(" {
						return []modTarget{{name: t.elemsVar(ty).Name}}
					}
					if st, ok := ty.Underlying().(*types.Struct); ok && !t.S.opaqueStruct(ty) {
						// deref(StructType): structs live in per-field arrays - the item names every field of every object of the type
						var r []modTarget
						for i := 0; i < st.NumFields(); i++ {
							if at, ok := st.Field(i).Type().Underlying().(*types.Array); ok {
								r = append(r, modTarget{name: t.elemsVar(at.Elem()).Name})
								continue
							}
							r = append(r, modTarget{name: t.fieldVar(ty, i).Name})
						}
						return r
					}
					return []modTarget{{name: t.derefVar(ty).Name}}
				}
			}
		}
	}
	x, err := parseSpec(item)
	if err != nil {
		t.errorf("modifies %q: %v", item, err)
		return []modTarget{{all: true}}
	}
	isBound := func(name string) bool {
		if _, ok := env.vars[name]; ok {
			return true
		}
		if _, ok := env.prm[name]; ok {
			return true
		}
		if env.local != nil {
			if _, _, ok := env.local(name); ok {
				return true
			}
		}
		return false
	}
	structFields := func(st types.Type, ref Term) []modTarget {
		var r []modTarget
		s := st.Underlying().(*types.Struct)
		for i := 0; i < s.NumFields(); i++ {
			if at, ok := s.Field(i).Type().Underlying().(*types.Array); ok {
				ev := t.elemsVar(at.Elem())
				if ref == "" {
					r = append(r, modTarget{name: ev.Name})
				} else {
					r = append(r, modTarget{name: ev.Name, ref: t.fieldArrBase(st, i, ref)})
				}
				continue
			}
			r = append(r, modTarget{name: t.fieldVar(st, i).Name, ref: ref})
		}
		return r
	}
	switch x := x.(type) {
	case *EIdent:
		if g, ok := t.eng.contracts.Ghosts[x.Name]; ok {
			out := []modTarget{{name: t.ghostVar(g, env.pkgOf(g.Pkg)).Name}}
			for _, n := range t.eng.contracts.ghostClosure(x.Name) {
				if g2, ok := t.eng.contracts.Ghosts[n]; ok && n != x.Name {
					out = append(out, modTarget{name: t.ghostVar(g2, env.pkgOf(g2.Pkg)).Name})
				}
			}
			return out
		}
		if obj := env.pkg.Scope().Lookup(x.Name); obj != nil {
			if v, ok := obj.(*types.Var); ok {
				if g := t.eng.globalOf(v); g != nil {
					return []modTarget{{name: t.globalVar(g).Name}}
				}
			}
			if tn, ok := obj.(*types.TypeName); ok {
				if _, ok := tn.Type().Underlying().(*types.Struct); ok {
					return structFields(tn.Type(), "")
				}
			}
		}
	case *ESelect:
		if inner, ok := x.X.(*ESelect); ok {
			if pid, ok := inner.X.(*EIdent); ok && !isBound(pid.Name) {
				// pkg.Type.field: the whole field array of a type of another package
				if ty := t.eng.resolveType(pid.Name+"."+inner.Sel, env.pkg); ty != nil {
					if s, ok := ty.Underlying().(*types.Struct); ok {
						for i := 0; i < s.NumFields(); i++ {
							if s.Field(i).Name() == x.Sel {
								if at, ok := s.Field(i).Type().Underlying().(*types.Array); ok {
									return []modTarget{{name: t.elemsVar(at.Elem()).Name}}
								}
								return []modTarget{{name: t.fieldVar(ty, i).Name}}
							}
						}
					}
				}
			}
		}
		if id, ok := x.X.(*EIdent); ok && !isBound(id.Name) {
			// Type.field: the whole field array
			if ty := t.eng.resolveType(id.Name, env.pkg); ty != nil {
				if s, ok := ty.Underlying().(*types.Struct); ok {
					for i := 0; i < s.NumFields(); i++ {
						if s.Field(i).Name() == x.Sel {
							if at, ok := s.Field(i).Type().Underlying().(*types.Array); ok {
								return []modTarget{{name: t.elemsVar(at.Elem()).Name}}
							}
							return []modTarget{{name: t.fieldVar(ty, i).Name}}
						}
					}
				}
			}
			t.errorf("modifies %q: unknown type or field", item)
			return []modTarget{{all: true}}
		}
		// x.f for a specific object
		v, ty := env.eval(x.X)
		if pt, ok := ty.Underlying().(*types.Pointer); ok {
			if s, ok := pt.Elem().Underlying().(*types.Struct); ok {
				for i := 0; i < s.NumFields(); i++ {
					if s.Field(i).Name() == x.Sel {
						if at, ok := s.Field(i).Type().Underlying().(*types.Array); ok {
							return []modTarget{{name: t.elemsVar(at.Elem()).Name, ref: t.fieldArrBase(pt.Elem(), i, v.T)}}
						}
						return []modTarget{{name: t.fieldVar(pt.Elem(), i).Name, ref: v.T}}
					}
				}
			}
		}
	case *EUnary:
		if x.Op == "*" {
			v, ty := env.eval(x.X)
			if v.P != nil {
				// pointer to a location of the caller (e.g. &c.inFlightPQ): the target is that storage
				p := v.P
				switch {
				case p.Cell != "":
					return []modTarget{{name: p.Cell}}
				case p.Global != "":
					return []modTarget{{name: p.Global}}
				case p.ArrOf != "":
					return []modTarget{{name: p.ArrOf, ref: p.Ref}}
				case len(p.Sels) > 0 && p.Sels[0].Index == "":
					if _, ok := p.Typ.Underlying().(*types.Struct); ok {
						return []modTarget{{name: t.fieldVar(p.Typ, p.Sels[0].Field).Name, ref: p.Ref}}
					}
				}
			}
			if pt, ok := ty.Underlying().(*types.Pointer); ok {
				if _, ok := pt.Elem().Underlying().(*types.Struct); ok && !t.S.opaqueStruct(pt.Elem()) {
					return structFields(pt.Elem(), v.T)
				}
				return []modTarget{{name: t.derefVar(pt.Elem()).Name, ref: v.T}}
			}
		}
	case *ECall:
		switch x.Fun {
		case "elems":
			if id, ok := x.Args[0].(*EIdent); ok && !isBound(id.Name) {
				if ty := t.eng.resolveType(id.Name, env.pkg); ty != nil {
					return []modTarget{{name: t.elemsVar(ty).Name}}
				}
			}
			v, ty := env.eval(x.Args[0])
			if sl, ok := ty.Underlying().(*types.Slice); ok {
				return []modTarget{{name: t.elemsVar(sl.Elem()).Name, ref: fmt.Sprintf("(sbase %s)", v.T)}}
			}
		case "mapof":
			v, ty := env.eval(x.Args[0])
			if mt, ok := ty.Underlying().(*types.Map); ok {
				md, mv, ml := t.mapVars(mt)
				return []modTarget{{name: md.Name, ref: v.T}, {name: mv.Name, ref: v.T}, {name: ml.Name, ref: v.T}}
			}
		case "mapstore":
			// every map of that type (whole store)
			var tyText string
			if len(x.Args) == 1 {
				tyText = exprTypeText(x.Args[0])
			}
			if ty := t.eng.resolveType(tyText, env.pkg); ty != nil {
				if mt, ok := ty.Underlying().(*types.Map); ok {
					md, mv, ml := t.mapVars(mt)
					return []modTarget{{name: md.Name}, {name: mv.Name}, {name: ml.Name}}
				}
			}
		case "deref":
			if id, ok := x.Args[0].(*EIdent); ok {
				if ty := t.eng.resolveType(id.Name, env.pkg); ty != nil {
					return []modTarget{{name: t.derefVar(ty).Name}}
				}
			}
		}
	}
	t.errorf("modifies %q: unsupported item", item)
	return []modTarget{{all: true}}
}

func (t *fnTrans) applyContract(fc *FuncContract, key string, sig *types.Signature, fn *ssa.Function, args []Val, argTys []types.Type, resTy types.Type, pos token.Pos) Val {
	t.usedContracts[key] = fc
	var pkg *types.Package
	if fc.Extern && fc.PkgPath != "" {
		pkg = t.eng.typesPkg(fc.PkgPath)
	} else if fn != nil && fn.Pkg != nil {
		pkg = fn.Pkg.Pkg
	} else if fc.PkgPath != "" {
		pkg = t.eng.typesPkg(fc.PkgPath)
	}
	if pkg == nil {
		pkg = t.fn.Pkg.Pkg
	}
	pre := t.cur.clone()
	t.callSeq++
	snapPrefix := fmt.Sprintf("call%d:", t.callSeq)
	env := &Env{t: t, st: t.cur, old: pre, vars: map[string]bound{}, pkg: pkg, snapPrefix: snapPrefix}
	var names []string
	hasRecv := sig.Recv() != nil && fn != nil
	if fc.Extern {
		names = fc.Params
	} else {
		if hasRecv {
			names = append(names, fc.RecvName)
		}
		names = append(names, fc.Params...)
	}
	for i, a := range args {
		if i >= len(names) {
			break
		}
		v := a
		if v.P != nil && !(v.P.Ref != "" && v.P.ArrOf == "" && len(v.P.Sels) == 0) {
			// location argument (e.g. &x.count): spec may use *name
			env.vars[names[i]] = bound{Val{P: v.P, T: ""}, argTys[i]}
			continue
		}
		env.vars[names[i]] = bound{Val{T: t.term(v), IfaceP: v.IfaceP, IfaceT: v.IfaceT, Fn: v.Fn, Bnd: v.Bnd}, argTys[i]}
	}
	if fn != nil && len(fn.FreeVars) > 0 && len(args) == len(fn.Params)+len(fn.FreeVars) {
		// static call of a closure: its contract names the captured variables; a binding is the address of the captured cell,
		// so the name means the cell's content at the call (the meaning it has when the closure body itself is verified)
		for i, fv := range fn.FreeVars {
			a := args[len(fn.Params)+i]
			if pt, ok := fv.Type().(*types.Pointer); ok {
				p := a.P
				if p == nil {
					p = &Path{Ref: t.term(a), Typ: pt.Elem()}
				}
				env.vars[fv.Name()] = bound{Val{P: p, T: ""}, pt.Elem()}
			}
		}
	}
	short := key
	if fn != nil {
		short = t.eng.displayName(fn)
	}
	// ghost parameters of the callee: its clauses hold for every value. Preconditions are checked
	// for an arbitrary value; postconditions are assumed for the caller's own ghost parameters and
	// for its parameters of the same type (explicit instantiation).
	type ginst map[string]bound
	var insts []ginst
	if len(fc.Ghosts) > 0 {
		insts = []ginst{{}}
		for _, g := range fc.Ghosts {
			gty := t.eng.resolveType(g.Type, pkg)
			if gty == nil {
				t.errorf("ghostparam %s of %s: unknown type %s", g.Name, short, g.Type)
				continue
			}
			env.vars[g.Name] = bound{Val{T: t.freshVal("ghostarg", gty)}, gty}
			var cands []bound
			if t.fc != nil && fn != nil {
				for _, ie := range t.fc.Insts[fn.Name()+"."+g.Name] {
					le := t.localEnv(t.cur, t.blk)
					v, vt := le.eval(ie)
					cands = append(cands, bound{Val{T: le.coerce(v, vt, gty)}, gty})
				}
			}
			if len(cands) == 0 {
				// default: the caller's own ghost parameters, parameters and the call's arguments of that type
				for _, gp := range t.ghostParams {
					if types.Identical(gp.ty, gty) {
						cands = append(cands, gp)
					}
				}
				if isRefLike(gty) {
					for _, p := range t.fn.Params {
						if types.Identical(p.Type(), gty) {
							cands = append(cands, bound{t.params[p.Name()], gty})
						}
					}
					for i, a := range args {
						if i < len(argTys) && types.Identical(argTys[i], gty) && a.P == nil {
							cands = append(cands, bound{Val{T: t.term(a)}, gty})
						}
					}
				}
			}
			if len(cands) == 0 {
				cands = []bound{env.vars[g.Name]}
			}
			var next []ginst
			for _, in := range insts {
				for _, c := range cands {
					n := ginst{}
					for k, v := range in {
						n[k] = v
					}
					n[g.Name] = c
					next = append(next, n)
				}
			}
			insts = next
		}
	}
	checkReq := func(suffix string) {
		for i, c := range fc.Requires {
			nm := c.Name
			if nm == "" {
				nm = fmt.Sprint(i)
			}
			t.oblige("requires", short+"."+nm+suffix, "precondition of "+short+": "+c.Src, env.boolOf(c.Expr), pos)
		}
	}
	if len(insts) == 0 {
		checkReq("")
	} else {
		for k, in := range insts {
			for name, b := range in {
				env.vars[name] = b
			}
			sfx := ""
			if k > 0 {
				sfx = fmt.Sprintf(".inst%d", k)
			}
			checkReq(sfx)
		}
	}
	// effects
	switch {
	case !fc.HasMod && !fc.Trusted:
		t.havocAll(key)
	case fc.HasMod:
		for _, item := range fc.Modifies {
			for _, mt := range t.resolveMod(item, env.with(pre)) {
				if mt.all {
					t.havocAll(key)
					continue
				}
				sv := t.vars[mt.name]
				if mt.ref == "" {
					nv := t.fresh(mt.name+"_md", sv.Sort)
					if sv.Kind == "ghost" || sv.Kind == "global" {
						t.assume(t.wf(nv, sv.Typ))
					}
					t.set(mt.name, nv)
				} else {
					inner := strings.TrimSuffix(strings.TrimPrefix(sv.Sort, "(Array Int "), ")")
					nv := t.fresh(mt.name+"_md", inner)
					t.set(mt.name, fmt.Sprintf("(store %s %s %s)", t.get(t.cur, mt.name), mt.ref, nv))
				}
			}
		}
		na := t.fresh("alloc_c", "Int")
		t.assume(fmt.Sprintf("(>= %s %s)", na, t.get(t.cur, "alloc")))
		t.set("alloc", na)
		if !fc.Extern && !fc.Trusted {
			// free ghosts are outside every frame: unknown after a call of a verified repository function
			// unless it says `keeps` (the callee's ensures / onreturn clauses may say more); a trusted
			// contract's `modifies` is taken as complete for them as well
			for _, name := range sortedKeys(t.vars) {
				if sv := t.vars[name]; sv.Free && !t.keepsGhost(fc, name) {
					nv := t.fresh(name+"_fg", sv.Sort)
					if sv.Typ != nil {
						t.assume(t.wf(nv, sv.Typ))
					}
					t.set(name, nv)
				}
			}
		}
		if fc.HasChans && !fc.NoChan && !fc.Extern {
			// `chans a, b`: only the ghosts of the listed channels are unknown afterwards
			al := t.chansAllowed(fc, env.with(pre))
			for _, name := range sortedKeys(al) {
				sv := t.vars[name]
				if sv == nil {
					continue
				}
				inner := strings.TrimSuffix(strings.TrimPrefix(sv.Sort, "(Array Int "), ")")
				for _, ref := range al[name] {
					nv := t.fresh(name+"_chs", inner)
					t.set(name, fmt.Sprintf("(store %s %s %s)", t.get(t.cur, name), ref, nv))
				}
			}
		} else if !fc.NoChan && !fc.Extern {
			// a repository function may send / receive: channel counters are unknown afterwards
			// unless its contract says `nochan` (or lists chanstore(T) and constrains them in ensures)
			listed := map[string]bool{}
			for _, item := range fc.Modifies {
				if strings.HasPrefix(strings.TrimSpace(item), "chanstore(") {
					for _, mt := range t.resolveMod(item, env.with(pre)) {
						listed[mt.name] = true
					}
				}
			}
			for _, name := range sortedKeys(t.vars) {
				if sv := t.vars[name]; sv.Kind == "chan" && !listed[name] {
					t.set(name, t.fresh(name+"_ch", sv.Sort))
				}
			}
		}
	}
	res := t.resultVal(resTy, "ret")
	post := &Env{t: t, st: t.cur, old: pre, vars: map[string]bound{}, pkg: pkg, snapPrefix: snapPrefix}
	for k, b := range env.vars {
		post.vars[k] = b
	}
	bindRes := func(i int, v Val, ty types.Type) {
		if i < len(fc.Results) {
			post.vars[fc.Results[i]] = bound{v, ty}
		}
		post.vars[fmt.Sprintf("result%d", i)] = bound{v, ty}
		if i == 0 {
			if _, taken := post.vars["result"]; !taken {
				post.vars["result"] = bound{v, ty}
			}
		}
		if !fc.Extern && i < sig.Results().Len() {
			if n := sig.Results().At(i).Name(); n != "" && n != "_" {
				if _, taken := post.vars[n]; !taken {
					post.vars[n] = bound{v, ty}
				}
			}
		}
	}
	if tup, ok := resTy.(*types.Tuple); ok {
		for i := 0; i < tup.Len(); i++ {
			bindRes(i, res.Tup[i], tup.At(i).Type())
		}
	} else {
		bindRes(0, res, resTy)
	}
	defer t.applyOnReturn(fc, post)
	// a clause that cannot be expressed in the caller's arithmetic mode (bit operations of a bv64
	// callee seen from an Int-mode caller) is dropped at this call site: fewer assumptions, still sound
	assumeClause := func(c *Clause) (Term, bool) {
		n := len(t.errs)
		a := post.boolOf(c.Expr)
		if len(t.errs) > n {
			t.errs = t.errs[:n]
			t.assumptions["clause of "+short+" not usable at this call site (arithmetic mode): "+c.Src] = true
			return "", false
		}
		return a, true
	}
	if fc.NoReturn {
		t.assume("false") // `noreturn`: nothing after this call is reachable
	}
	if len(insts) == 0 {
		for _, c := range fc.Ensures {
			if a, ok := assumeClause(c); ok {
				t.assume(a)
			}
		}
		return res
	}
	seen := map[string]bool{}
	for _, in := range insts {
		for k, b := range in {
			post.vars[k] = b
		}
		for _, c := range fc.Ensures {
			a, ok := assumeClause(c)
			if ok && !seen[a] {
				seen[a] = true
				t.assume(a)
			}
		}
	}
	return res
}

// exprTypeText renders a spec expression that denotes a type name (identifier or pkg.Name).
func exprTypeText(x Expr) string {
	switch x := x.(type) {
	case *EIdent:
		return x.Name
	case *ESelect:
		return exprTypeText(x.X) + "." + x.Sel
	}
	return ""
}

// applyOnReturn: the callee's ghost updates take effect in the caller's state.
func (t *fnTrans) applyOnReturn(fc *FuncContract, post *Env) {
	t.applyGhostSets(fc.OnReturn, post)
}

// spawn: `go f(args)`. The goroutine's body is not followed; the only effect on the spawner's state is
// the `onspawn` ghost updates of f's contract (specification-only: they record that, and with which
// arguments, the goroutine was started).
func (t *fnTrans) spawn(in *ssa.Go) {
	c := &in.Call
	if _, ok := c.Value.(*ssa.Builtin); ok {
		return
	}
	key := calleeKey(c)
	fn := c.StaticCallee()
	var fc *FuncContract
	if fn != nil {
		fc = t.eng.contractOf(fn)
	}
	if fc == nil {
		fc, _ = t.eng.contracts.lookupExtern(key, t.callerPkgPath())
	}
	if fc != nil && !fc.Extern {
		// the goroutine's body is verified as a function of its own: the spawner's property depends on that proof too
		if t.spawned == nil {
			t.spawned = map[string]*FuncContract{}
		}
		t.spawned[key] = fc
	}
	checkReq := fc != nil && !fc.Extern && !fc.Trusted && len(fc.Requires) > 0 && os.Getenv("NSQVC_NO_SPAWNREQ") == ""
	if fc == nil || (len(fc.OnSpawn) == 0 && !checkReq) {
		return
	}
	var args []Val
	var argTys []types.Type
	if c.IsInvoke() {
		args = append(args, t.val(c.Value))
		argTys = append(argTys, c.Value.Type())
	}
	for _, a := range c.Args {
		args = append(args, t.val(a))
		argTys = append(argTys, a.Type())
	}
	var bnd []Val
	if mc, ok := c.Value.(*ssa.MakeClosure); ok {
		for _, x := range mc.Bindings {
			bnd = append(bnd, t.val(x))
		}
		t.captureStability(mc, in)
	} else if v := t.val(c.Value); v.Fn != nil && fn == nil {
		fn = v.Fn
		bnd = v.Bnd
	}
	pkg := t.fn.Pkg.Pkg
	if fc.PkgPath != "" {
		if p := t.eng.typesPkg(fc.PkgPath); p != nil {
			pkg = p
		}
	}
	pre := t.cur.clone()
	env := &Env{t: t, st: t.cur, old: pre, vars: map[string]bound{}, pkg: pkg}
	var names []string
	if fc.Extern {
		names = fc.Params
	} else {
		if c.Signature().Recv() != nil && fn != nil {
			names = append(names, fc.RecvName)
		}
		names = append(names, fc.Params...)
	}
	for i, a := range args {
		if i >= len(names) {
			break
		}
		if a.P != nil && !(a.P.Ref != "" && a.P.ArrOf == "" && len(a.P.Sels) == 0) {
			env.vars[names[i]] = bound{Val{P: a.P, T: ""}, argTys[i]}
			continue
		}
		env.vars[names[i]] = bound{Val{T: t.term(a)}, argTys[i]}
	}
	if fn != nil && len(fn.FreeVars) > 0 && len(bnd) == len(fn.FreeVars) {
		for i, fv := range fn.FreeVars {
			if pt, ok := fv.Type().(*types.Pointer); ok {
				p := bnd[i].P
				if p == nil {
					p = &Path{Ref: t.term(bnd[i]), Typ: pt.Elem()}
				}
				env.vars[fv.Name()] = bound{Val{P: p, T: ""}, pt.Elem()}
			}
		}
	}
	t.usedContracts[key] = fc
	if checkReq && (len(fn.FreeVars) == 0 || len(bnd) == len(fn.FreeVars)) {
		t.goRequires(fn, fc, env, in.Pos())
	}
	t.applyGhostSets(fc.OnSpawn, env)
}

// captureStability: a function literal started with `go` reads the variables it captures when IT runs, not when the `go` statement ran. Its
// contract speaks about the captured values at its own start (`old(clientConn)`), so the spawner must not assign a captured variable after the
// `go` statement - unless the assignment is to a fresh variable (the path from the `go` statement to the assignment re-executes the variable's
// declaration, as `conn, err := l.Accept()` inside a loop does). An assignment that is reachable without passing the declaration (the variable
// was hoisted out of the loop: every goroutine shares ONE cell) fails the obligation `safety[capture.<var>]`.
func (t *fnTrans) captureStability(mc *ssa.MakeClosure, goInstr ssa.Instruction) {
	if t.fc == nil || os.Getenv("NSQVC_NO_CAPTURE") != "" {
		return
	}
	for _, bv := range mc.Bindings {
		cell, ok := bv.(*ssa.Alloc)
		if !ok || cell.Parent() != t.fn {
			continue
		}
		seen := map[int]bool{}
		found := false
		var scan func(b *ssa.BasicBlock, from int)
		scan = func(b *ssa.BasicBlock, from int) {
			for i := from; i < len(b.Instrs); i++ {
				in := b.Instrs[i]
				if in == ssa.Instruction(cell) {
					return // a fresh variable from here on
				}
				if call, ok := in.(*ssa.Call); ok && calleeKey(&call.Call) == "(*sync.WaitGroup).Wait" {
					return // the goroutines started before are joined here
				}
				if st, ok := in.(*ssa.Store); ok && st.Addr == ssa.Value(cell) {
					found = true
					return
				}
			}
			for _, s := range b.Succs {
				if !seen[s.Index] {
					seen[s.Index] = true
					scan(s, 0)
				}
			}
		}
		gb := goInstr.Block()
		start := 0
		for i, in := range gb.Instrs {
			if in == goInstr {
				start = i + 1
			}
		}
		scan(gb, start)
		if found {
			name := cell.Comment
			if name == "" {
				name = cell.Name()
			}
			t.oblige("safety", "capture."+name, "the variable "+name+" captured by the goroutine started here is assigned again by the spawner without being re-declared (the goroutine may see the later value)", "false", goInstr.Pos())
		}
	}
}

// goRequires: the body of a goroutine is verified under its `requires`: they are obligations where it is started (in the state of the
// `go` statement - or of the WaitGroupWrapper.Wrap call that starts it; what other goroutines do between the statement and the first
// instruction of the new one is outside the model).
func (t *fnTrans) goRequires(fn *ssa.Function, fc *FuncContract, env *Env, pos token.Pos) {
	{
		short := t.eng.displayName(fn)
		for i, cl := range fc.Requires {
			nm := cl.Name
			if nm == "" {
				nm = fmt.Sprint(i)
			}
			if strings.HasPrefix(nm, "typing") {
				// a clause that only restates the machine type of a ghost's field (`typing`: 0 <= m.Attempts < 65536) is not an obligation
				t.assumptions["typing clause of the goroutine "+short+" is taken as a type fact at its `go` statement: "+cl.Src] = true
				continue
			}
			if strings.HasPrefix(nm, "env-") {
				// `requires[env-...]`: an assumption about the rest of the process that the spawner cannot establish (reported)
				t.assumptions["environment assumption of the goroutine "+short+" (not an obligation of its `go` statement): "+cl.Src] = true
				continue
			}
			t.oblige("requires", "go "+short+"."+nm, "precondition of the goroutine "+short+" at its `go` statement: "+cl.Src, env.boolOf(cl.Expr), pos)
		}
	}
}

// wrapSpawn: `wg.Wrap(f)` (internal/util.WaitGroupWrapper) starts f in a goroutine of its own: when f is statically known - a function
// literal or a method value `n.queueScanLoop` - and under contract, its preconditions are obligations at the Wrap call.
func (t *fnTrans) wrapSpawn(c *ssa.CallCommon, pos token.Pos) {
	if len(c.Args) != 2 || os.Getenv("NSQVC_NO_SPAWNREQ") != "" {
		return
	}
	v := t.val(c.Args[1])
	if v.Fn == nil {
		return
	}
	fn := v.Fn
	bnd := v.Bnd
	env := &Env{t: t, st: t.cur, old: t.cur.clone(), vars: map[string]bound{}, pkg: t.fn.Pkg.Pkg}
	if strings.HasSuffix(fn.String(), "$bound") {
		// method value: the contract is the method's, the bound value is its receiver
		name := strings.TrimSuffix(fn.String(), "$bound")
		var m *ssa.Function
		for f := range t.eng.fnContract {
			if f.String() == name {
				m = f
			}
		}
		if m == nil || len(bnd) != 1 {
			return
		}
		fc := t.eng.fnContract[m]
		if fc == nil || fc.Extern || fc.Trusted || len(fc.Requires) == 0 {
			return
		}
		if m.Pkg != nil {
			env.pkg = m.Pkg.Pkg
		}
		env.vars[fc.RecvName] = bound{Val{T: t.term(bnd[0])}, m.Signature.Recv().Type()}
		if t.spawned == nil {
			t.spawned = map[string]*FuncContract{}
		}
		t.spawned[m.String()] = fc
		t.goRequires(m, fc, env, pos)
		return
	}
	fc := t.eng.contractOf(fn)
	if fc == nil || fc.Extern || fc.Trusted || len(fn.FreeVars) != len(bnd) {
		return
	}
	if fn.Pkg != nil {
		env.pkg = fn.Pkg.Pkg
	} else if fn.Parent() != nil && fn.Parent().Pkg != nil {
		env.pkg = fn.Parent().Pkg.Pkg
	}
	for i, fv := range fn.FreeVars {
		if pt, ok := fv.Type().(*types.Pointer); ok {
			p := bnd[i].P
			if p == nil {
				p = &Path{Ref: t.term(bnd[i]), Typ: pt.Elem()}
			}
			env.vars[fv.Name()] = bound{Val{P: p, T: ""}, pt.Elem()}
		}
	}
	if t.spawned == nil {
		t.spawned = map[string]*FuncContract{}
	}
	t.spawned[fn.String()] = fc
	if len(fc.Requires) > 0 {
		t.goRequires(fn, fc, env, pos)
	}
}

func (t *fnTrans) applyGhostSets(sets []*GhostSet, post *Env) {
	for _, gs := range sets {
		g, ok := t.eng.contracts.Ghosts[gs.Var]
		if !ok {
			t.errorf("onreturn: unknown ghost %s", gs.Var)
			continue
		}
		sv := t.ghostVar(g, post.pkgOf(g.Pkg))
		pe := *post
		// in the right-hand side the assigned ghost itself denotes its value before the call (so that
		// `g := g + 1` works even when g is listed in `modifies`); every other name is read in the
		// post-state, after earlier onreturn clauses of the same contract
		mixed := t.cur.clone()
		mixed.m[sv.Name] = t.get(post.old, sv.Name)
		pe.st = mixed
		v, vt := pe.eval(gs.Val)
		nv := pe.coerce(v, vt, sv.Typ)
		if gs.Cond != nil {
			nv = fmt.Sprintf("(ite %s %s %s)", pe.boolOf(gs.Cond), nv, t.get(t.cur, sv.Name))
		}
		r := t.fresh(sv.Name+"_set", sv.Sort)
		t.define(fmt.Sprintf("(= %s %s)", r, nv))
		t.set(sv.Name, r)
	}
}

func (t *fnTrans) callerPkgPath() string {
	f := t.fn
	for f != nil && f.Pkg == nil && f.Parent() != nil {
		f = f.Parent()
	}
	if f != nil && f.Pkg != nil {
		return f.Pkg.Pkg.Path()
	}
	return ""
}
