package main

// Inlining of small repository callees that have no contract: extracting a helper out of a function
// under contract must not turn into an alarm. The callee's (loop-free) body is executed symbolically at
// the call site, on the caller's state; its safety obligations become obligations of the caller.

import (
	"fmt"
	"go/types"
	"sort"
	"strings"

	"golang.org/x/tools/go/ssa"
)

type inlReturn struct {
	in    *ssa.Return
	reach Term
	st    *State
}

type inlineFrame struct {
	name    string
	prefix  string
	cur     Term // reach predicate of the callee block being executed
	returns []inlReturn
}

func (t *fnTrans) inlinable(fn *ssa.Function) bool {
	if fn == nil || fn.Pkg == nil || !t.eng.inRepo(fn.Pkg.Pkg.Path()) || len(fn.Blocks) == 0 || len(fn.Blocks) > 16 {
		return false
	}
	if len(t.inlStack) >= 2 {
		return false
	}
	for _, f := range t.inlStack {
		if f == fn {
			return false
		}
	}
	n := 0
	for _, b := range fn.Blocks {
		for _, s := range b.Succs {
			if s.Dominates(b) {
				return false // loops need invariants: not inlined
			}
		}
		for _, in := range b.Instrs {
			n++
			switch in.(type) {
			case *ssa.Defer, *ssa.Go, *ssa.Select, *ssa.Range, *ssa.Next, *ssa.MakeClosure:
				return false
			case *ssa.RunDefers:
			}
		}
	}
	return n <= 120
}

// inlineCall executes fn's body at the current point. Returns the result value.
func (t *fnTrans) inlineCall(fn *ssa.Function, args []Val, resTy types.Type) Val {
	t.inlSeq++
	outer := t.inl
	fr := &inlineFrame{name: t.eng.displayName(fn), prefix: fmt.Sprintf("i%d_", t.inlSeq)}
	t.inlStack = append(t.inlStack, fn)
	defer func() { t.inlStack = t.inlStack[:len(t.inlStack)-1]; t.inl = outer }()
	t.assumptions["callee without contract inlined at its call site: "+fr.name] = true

	// reach of the call site
	site := "true"
	if outer != nil {
		site = outer.cur
	}
	for i, p := range fn.Params {
		if i < len(args) {
			a := args[i]
			if a.P != nil && !(a.P.Ref != "" && a.P.ArrOf == "" && len(a.P.Sels) == 0) {
				t.vals[p] = a
			} else {
				t.vals[p] = Val{T: t.term(a), Fn: a.Fn, Bnd: a.Bnd}
			}
		}
	}
	// topological order (no loops)
	seen := map[int]bool{}
	var post []*ssa.BasicBlock
	var dfs func(b *ssa.BasicBlock)
	dfs = func(b *ssa.BasicBlock) {
		seen[b.Index] = true
		for _, s := range b.Succs {
			if !seen[s.Index] {
				dfs(s)
			}
		}
		post = append(post, b)
	}
	dfs(fn.Blocks[0])
	reach := map[int]Term{}
	out := map[int]*State{}
	entryState := t.cur
	for k := len(post) - 1; k >= 0; k-- {
		b := post[k]
		rn := fmt.Sprintf("%sreach_%d", fr.prefix, b.Index)
		t.declare(rn, "Bool")
		reach[b.Index] = rn
		if b == fn.Blocks[0] {
			t.define(fmt.Sprintf("(= %s %s)", rn, site))
			t.cur = entryState.clone()
		} else {
			type inc struct {
				cond Term
				st   *State
			}
			var incs []inc
			var edges []Term
			for _, p := range b.Preds {
				if !seen[p.Index] || out[p.Index] == nil {
					continue
				}
				for si, sc := range p.Succs {
					if sc != b {
						continue
					}
					en := fmt.Sprintf("%sedge_%d_%d_%d", fr.prefix, p.Index, b.Index, si)
					t.declare(en, "Bool")
					c := reach[p.Index]
					if ifi, ok := p.Instrs[len(p.Instrs)-1].(*ssa.If); ok && p.Succs[0] != p.Succs[1] {
						cv := t.term(t.val(ifi.Cond))
						if si == 0 {
							c = fmt.Sprintf("(and %s %s)", c, cv)
						} else {
							c = fmt.Sprintf("(and %s (not %s))", c, cv)
						}
					}
					t.define(fmt.Sprintf("(= %s %s)", en, c))
					edges = append(edges, en)
					incs = append(incs, inc{en, out[p.Index]})
				}
			}
			if len(edges) == 0 {
				t.define(fmt.Sprintf("(= %s false)", rn))
				out[b.Index] = entryState.clone()
				continue
			}
			t.define(fmt.Sprintf("(= %s (or %s false))", rn, strings.Join(edges, " ")))
			st := &State{m: map[string]Term{}}
			keys := map[string]bool{}
			for _, ic := range incs {
				for k2 := range ic.st.m {
					keys[k2] = true
				}
			}
			var ks []string
			for k2 := range keys {
				ks = append(ks, k2)
			}
			sort.Strings(ks)
			for _, k2 := range ks {
				first := t.get(incs[0].st, k2)
				same := true
				for _, ic := range incs[1:] {
					if t.get(ic.st, k2) != first {
						same = false
					}
				}
				if same {
					st.m[k2] = first
					continue
				}
				base := k2
				if i := strings.LastIndex(k2, ":"); i >= 0 {
					base = k2[i+1:]
				}
				sv := t.vars[base]
				if sv == nil {
					continue
				}
				mv := fmt.Sprintf("%s%s_b%d", fr.prefix, sanitize(k2), b.Index)
				t.declare(mv, sv.Sort)
				for _, ic := range incs {
					t.define(fmt.Sprintf("(=> %s (= %s %s))", ic.cond, mv, t.get(ic.st, k2)))
				}
				st.m[k2] = mv
			}
			t.cur = st
			for _, in := range b.Instrs {
				phi, ok := in.(*ssa.Phi)
				if !ok {
					break
				}
				n := "v_" + fr.prefix + sanitize(phi.Name())
				t.declare(n, t.S.sortOf(phi.Type()))
				for i, p := range b.Preds {
					for si, sc := range p.Succs {
						if sc != b {
							continue
						}
						en := fmt.Sprintf("%sedge_%d_%d_%d", fr.prefix, p.Index, b.Index, si)
						if t.declared[en] {
							t.define(fmt.Sprintf("(=> %s (= %s %s))", en, n, t.term(t.val(phi.Edges[i]))))
						}
					}
				}
				t.vals[phi] = Val{T: n}
			}
		}
		fr.cur = rn
		t.inl = fr
		for _, in := range b.Instrs {
			if _, ok := in.(*ssa.Phi); ok {
				continue
			}
			t.instr(in)
			t.inl = fr // nested inlines restore, but be explicit
			fr.cur = rn
		}
		out[b.Index] = t.cur
	}
	t.inl = outer
	// merge the returns
	if len(fr.returns) == 0 {
		// the callee never returns (panics / exits): the rest of the caller is unreachable from here
		t.assume("false")
		t.cur = entryState
		return t.resultVal(resTy, "inlret")
	}
	res := t.resultVal(resTy, "inlret")
	merged := &State{m: map[string]Term{}}
	keys := map[string]bool{}
	for _, r := range fr.returns {
		for k := range r.st.m {
			keys[k] = true
		}
	}
	var ks []string
	for k := range keys {
		ks = append(ks, k)
	}
	sort.Strings(ks)
	for _, k := range ks {
		base := k
		if i := strings.LastIndex(k, ":"); i >= 0 {
			base = k[i+1:]
		}
		sv := t.vars[base]
		if sv == nil {
			continue
		}
		first := t.get(fr.returns[0].st, k)
		same := true
		for _, r := range fr.returns[1:] {
			if t.get(r.st, k) != first {
				same = false
			}
		}
		if same {
			merged.m[k] = first
			continue
		}
		mv := fmt.Sprintf("%s%s_ret", fr.prefix, sanitize(k))
		t.declare(mv, sv.Sort)
		for _, r := range fr.returns {
			t.define(fmt.Sprintf("(=> %s (= %s %s))", r.reach, mv, t.get(r.st, k)))
		}
		merged.m[k] = mv
	}
	var reaches []Term
	for _, r := range fr.returns {
		reaches = append(reaches, r.reach)
		for i, rv := range r.in.Results {
			v := t.term(t.valIn(rv, r.st))
			if len(res.Tup) > 0 {
				if i < len(res.Tup) {
					t.define(fmt.Sprintf("(=> %s (= %s %s))", r.reach, res.Tup[i].T, v))
				}
			} else if i == 0 {
				t.define(fmt.Sprintf("(=> %s (= %s %s))", r.reach, res.T, v))
			}
		}
	}
	t.cur = merged
	// the call returns through one of its return sites (a path that panics does not continue)
	t.assume(fmt.Sprintf("(or %s false)", strings.Join(reaches, " ")))
	return res
}

// valIn: the value of v (registers are state independent; kept for clarity).
func (t *fnTrans) valIn(v ssa.Value, _ *State) Val { return t.val(v) }
