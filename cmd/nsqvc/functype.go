package main

// Function-type contracts: `extern functype:<pkgpath>.<Type>(params) (results)` is the contract of EVERY value of the
// named function type <Type>. It is assumed at dynamic calls through a value of that type, and it is an obligation
// (kind `functype`) at every return of every repository function under contract whose signature is identical to the
// type's (closed world: the implementations of the type are the repository functions of that signature; those without a
// contract are listed as unchecked in the evidence of every function that relies on the type contract).

import (
	"fmt"
	"go/types"
	"sort"
	"strings"

	"golang.org/x/tools/go/ssa"
)

// funcTypeKey: extern key of a dynamic call through a value of a named function type ("" otherwise).
func funcTypeKey(ty types.Type) string {
	n, ok := types.Unalias(ty).(*types.Named)
	if !ok || n.Obj().Pkg() == nil {
		return ""
	}
	if _, ok := n.Underlying().(*types.Signature); !ok {
		return ""
	}
	return "functype:" + n.Obj().Pkg().Path() + "." + n.Obj().Name()
}

type funcTypeSpec struct {
	key string
	fc  *FuncContract
	sig *types.Signature
}

func (e *Engine) funcTypeSpecs() []funcTypeSpec {
	var out []funcTypeSpec
	var keys []string
	for k := range e.contracts.Externs {
		if strings.HasPrefix(k, "functype:") && !strings.Contains(k, "@") {
			keys = append(keys, k)
		}
	}
	sort.Strings(keys)
	for _, k := range keys {
		name := strings.TrimPrefix(k, "functype:")
		i := strings.LastIndex(name, ".")
		if i < 0 {
			continue
		}
		pkg := e.typesPkg(name[:i])
		if pkg == nil {
			continue
		}
		obj := pkg.Scope().Lookup(name[i+1:])
		if obj == nil {
			continue
		}
		sig, ok := obj.Type().Underlying().(*types.Signature)
		if !ok {
			continue
		}
		out = append(out, funcTypeSpec{k, e.contracts.Externs[k], sig})
	}
	return out
}

func sameShape(fn *types.Signature, ft *types.Signature) bool {
	plain := types.NewSignatureType(nil, nil, nil, fn.Params(), fn.Results(), fn.Variadic())
	return types.Identical(plain, ft)
}

// funcTypeImpls: display names of the repository functions with the signature of the function type, split by
// whether they are under a verified contract.
func (e *Engine) funcTypeImpls(ft funcTypeSpec) (verified, unverified []string) {
	for _, pkg := range e.ssaPkgs {
		var fns []*ssa.Function
		for _, m := range pkg.Members {
			if f, ok := m.(*ssa.Function); ok {
				fns = append(fns, f)
			}
			if tn, ok := m.(*ssa.Type); ok {
				for _, ty := range []types.Type{tn.Type(), types.NewPointer(tn.Type())} {
					ms := e.prog.MethodSets.MethodSet(ty)
					for i := 0; i < ms.Len(); i++ {
						if f := e.prog.MethodValue(ms.At(i)); f != nil && f.Pkg == pkg && f.Synthetic == "" {
							fns = append(fns, f)
						}
					}
				}
			}
		}
		seen := map[*ssa.Function]bool{}
		var walk func(f *ssa.Function)
		walk = func(f *ssa.Function) {
			if f == nil || seen[f] {
				return
			}
			seen[f] = true
			if f.Signature != nil && sameShape(f.Signature, ft.sig) && len(f.Blocks) > 0 {
				if fc := e.contractOf(f); fc != nil && !fc.Trusted {
					verified = append(verified, e.displayName(f))
				} else {
					unverified = append(unverified, e.displayName(f))
				}
			}
			for _, a := range f.AnonFuncs {
				walk(a)
			}
		}
		for _, f := range fns {
			walk(f)
		}
	}
	sort.Strings(verified)
	sort.Strings(unverified)
	return
}

// funcTypeObligations: at a return of a function whose signature is that of a function type with a contract, the
// type contract's postconditions are obligations.
func (t *fnTrans) funcTypeObligations(in *ssa.Return) {
	for _, ft := range t.eng.funcTypeSpecs() {
		if !sameShape(t.fn.Signature, ft.sig) {
			continue
		}
		pkg := t.eng.typesPkg(ft.fc.PkgPath)
		if pkg == nil {
			pkg = t.fn.Pkg.Pkg
		}
		env := &Env{t: t, st: t.cur, old: t.entrySt, vars: map[string]bound{}, prm: map[string]bound{}, pkg: pkg}
		ps := t.fn.Params
		if t.fn.Signature.Recv() != nil && len(ps) > 0 {
			ps = ps[1:]
		}
		for i, p := range ps {
			if i < len(ft.fc.Params) {
				env.vars[ft.fc.Params[i]] = bound{t.params[p.Name()], p.Type()}
			}
		}
		for i, r := range in.Results {
			v := bound{Val{T: t.term(t.val(r))}, t.fn.Signature.Results().At(i).Type()}
			if i < len(ft.fc.Results) {
				env.vars[ft.fc.Results[i]] = v
			}
			env.vars[fmt.Sprintf("result%d", i)] = v
		}
		short := strings.TrimPrefix(ft.key, "functype:")
		if i := strings.LastIndex(short, "/"); i >= 0 {
			short = short[i+1:]
		}
		for i, c := range ft.fc.Ensures {
			nm := c.Name
			if nm == "" {
				nm = fmt.Sprint(i)
			}
			t.oblige("functype", short+"."+nm, "contract of every "+short+" value: "+c.Src, env.boolOf(c.Expr), in.Pos())
		}
	}
}
