#!/bin/bash
# failsum.sh <prop> [-fn X]: run a property check and summarise failures per function
cd /verif
./bin/nsqvc check -prop "$@" 2>&1 | python3 -c "
import sys,re,collections
d=collections.OrderedDict()
for l in sys.stdin:
    if l.startswith('property'): print(l.strip())
    m=re.match(r'\s+(FAILED|FAULT)\s+(\S+)\s+(.*?)/(\w+)\[([^\]]*)\](#\d+)?',l)
    if m:
        fn=m.group(3); kind=m.group(4); nm=m.group(5)
        d.setdefault(fn,collections.OrderedDict()).setdefault(kind,[])
        if nm not in d[fn][kind]: d[fn][kind].append(nm)
    elif 'FAULT' in l: print(l.strip()[:200])
for fn,k in d.items():
    print(fn)
    for kind,names in k.items(): print('   ',kind+':',', '.join(names)[:1500])
"
