#!/bin/bash
# mut.sh FILE PROP FN OLD NEW  : replace OLD by NEW (first occurrence, python str.replace) in FILE, run the check, revert
export GOFLAGS=-mod=mod GOPROXY=off GOSUMDB=off GOTOOLCHAIN=local TMPDIR=/tmp/r4/A.tmp
cd /tmp/r4/A || exit 1
python3 - "$1" "$4" "$5" <<'PY' || { echo "MUT: pattern not found"; exit 1; }
import sys
p,old,new=sys.argv[1:4]
s=open(p).read()
if old not in s: sys.exit(1)
open(p,'w').write(s.replace(old,new,1))
PY
go build ./nsqd/ 2>&1 | head -5
NSQVC_TRUSTED_DIR=/tmp/r4/A.trusted NSQVC_NO_LOCK=1 /verif/bin/nsqvc check -prop "$2" -fn "$3" -repo /tmp/r4/A -out /tmp/r4/A.out -v 2>&1 | grep -v "^VIOLATION" | cut -c1-220 | tail -${6:-6}
git checkout -- "$1"
