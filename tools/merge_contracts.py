#!/usr/bin/env python3
"""merge_contracts.py <donor.go> <repo-root>: for every `//@ func` item of the donor file whose function already has a
contract in another zz_contracts*_verif.go file of the same package, merge the donor's clauses into that item (union of
props / requires / ensures / modifies / onreturn / keeps, donor's `trusted` dropped when the other is verified) and delete it
from the donor. Loop blocks are kept from whichever side has them (error if both)."""
import re,sys,os,glob
donor,root=sys.argv[1],sys.argv[2]
def blocks(lines):
    """yield (start,end,sig) for func items"""
    i=0;out=[]
    while i<len(lines):
        m=re.match(r'//@ func (.*)',lines[i])
        if m:
            j=i+1
            while j<len(lines) and (re.match(r'//@ {2,}\S',lines[j]) or re.match(r'// {3,}\S',lines[j])):
                j+=1
            out.append((i,j,norm(m.group(1))))
            i=j
        else: i+=1
    return out
def norm(sig):
    # name key: receiver type + func name
    m=re.match(r'\((\w+) \*?(\w+)\) (\w+)\(',sig)
    if m: return m.group(2)+'.'+m.group(3)
    m=re.match(r'(\w[\w$]*)\(',sig)
    return m.group(1) if m else sig
def parse(block):
    """split into clause groups: list of (kw, text-lines)"""
    items=[];cur=None
    for l in block[1:]:
        m=re.match(r'//@   (\w+)(\[[^\]]*\])?(.*)',l)
        if m and not l.startswith('//@     ') and m.group(1) in KW:
            cur=[m.group(1),[l]];items.append(cur)
        else:
            if cur is None: cur=['comment',[l]];items.append(cur)
            else: cur[1].append(l)
    return items
KW={'props','arith','requires','ensures','modifies','loop','trusted','maypanic','ghostparam','inst','onreturn','onspawn','lockassume','nochan','keeps'}
dl=open(donor).read().split('\n')
pkgdir=os.path.dirname(donor)
others=[f for f in glob.glob(os.path.join(pkgdir,'zz_contracts*_verif.go')) if os.path.abspath(f)!=os.path.abspath(donor)]
index={}
for f in others:
    ls=open(f).read().split('\n')
    for (s,e,k) in blocks(ls): index[k]=f
remove=[]
for (s,e,k) in blocks(dl):
    if k not in index: continue
    f=index[k]
    ls=open(f).read().split('\n')
    (ts,te,_)=[b for b in blocks(ls) if b[2]==k][0]
    tgt=parse(ls[ts:te]); don=parse(dl[s:e])
    def get(items,kw): return [it for it in items if it[0]==kw]
    t_trusted=bool(get(tgt,'trusted')); d_trusted=bool(get(don,'trusted'))
    if get(tgt,'loop') and get(don,'loop'): print('BOTH HAVE LOOPS',k); continue
    if d_trusted and not t_trusted:
        don=[it for it in don if it[0]!='trusted']
    if t_trusted and not d_trusted:
        tgt=[it for it in tgt if it[0]!='trusted']
    # props union
    tp=get(tgt,'props'); dp=get(don,'props')
    props=[]
    for it in tp+dp:
        for p in re.sub(r'//@   props','',it[1][0]).replace(',',' ').split():
            if p not in props: props.append(p)
    # modifies union
    def moditems(items):
        txt=' '.join(re.sub(r'^//@\s+(modifies)?','',l) for it in get(items,'modifies') for l in it[1] if l.startswith('//@'))
        out=[];depth=0;cur=''
        for ch in txt:
            if ch in '([': depth+=1
            if ch in ')]': depth-=1
            if ch==',' and depth==0: out.append(cur.strip());cur=''
            else: cur+=ch
        if cur.strip(): out.append(cur.strip())
        return out
    tm=moditems(tgt); dm=moditems(don)
    hasmod=bool(get(tgt,'modifies')) and bool(get(don,'modifies'))
    mods=tm+[m for m in dm if m not in tm]
    # names already used
    def names(items,kw): return set(re.match(r'//@   \w+(\[[^\];]*)?',it[1][0]).group(1) or '' for it in get(items,kw))
    out=[ls[ts]]
    out.append('//@   props '+' '.join(props))
    for kw in ('arith','trusted','nochan','maypanic'):
        a=get(tgt,kw); b=get(don,kw)
        if kw=='nochan':
            if a and b: out+=a[0][1]
        elif kw=='trusted':
            if a and b: out+=a[0][1]
        elif a or b: out+=(a or b)[0][1]
    seen=set()
    def emit(kw,items_list,tag):
        for it in items_list:
            key=' '.join(x.strip() for x in it[1] if x.startswith('//@'))
            body=re.sub(r'^//@\s+\w+(\[[^\]]*\])?\s*','',key)
            if body in seen: continue
            seen.add(body)
            out.extend(it[1])
    for kw in ('keeps','ghostparam','inst','requires','lockassume','ensures'):
        seen=set()
        tnames=names(tgt,kw)
        emit(kw,get(tgt,kw),'')
        for it in get(don,kw):
            m=re.match(r'(//@   \w+)\[([^\];]*)(.*)',it[1][0])
            if m and ('['+m.group(2)) in tnames:
                it=[it[0],[m.group(1)+'['+m.group(2)+'-'+"j"+m.group(3)]+it[1][1:]]
            emit(kw,[it],'')
    if hasmod or (get(tgt,'modifies') or get(don,'modifies')) and (t_trusted or d_trusted):
        if mods: out.append('//@   modifies '+', '.join(mods))
        else: out.append('//@   modifies')
    elif (get(tgt,'modifies') and not get(don,'modifies')) or (get(don,'modifies') and not get(tgt,'modifies')):
        # one side has no frame (may change anything): verified side without modifies wins -> no clause
        side=tgt if not get(tgt,'modifies') else don
        if (side is tgt and t_trusted) or (side is don and d_trusted):
            out.append('//@   modifies '+', '.join(mods) if mods else '//@   modifies')
    seen=set()
    emit('onreturn',get(tgt,'onreturn')+get(don,'onreturn'),'')
    emit('onspawn',get(tgt,'onspawn')+get(don,'onspawn'),'')
    for it in get(tgt,'loop')+get(don,'loop'): out.extend(it[1])
    ls[ts:te]=out
    open(f,'w').write('\n'.join(ls))
    remove.append((s,e))
    print('merged',k,'->',os.path.basename(f))
for (s,e) in sorted(remove,reverse=True):
    dl[s:e]=['//   ('+dl[s][8:60].split('(')[0].strip()+'...: merged into the contract in another file of this package)'] if False else []
open(donor,'w').write('\n'.join(dl))
