#!/bin/bash
# run_seeds.sh [name ...]: applies each seeded change to /repo, runs the property's quick check, reverts.
# Prints one line per seed: DETECTED (check exits 1 with a VIOLATION line) or MISSED; the full output of each run is kept in
# out/seedruns/<name>.txt (selftest/seed_index.py builds seeded/INDEX.md and replay/seed_index.json from them).
cd /verif
names="$@"; [ -z "$names" ] && names=$(ls seeded)
mkdir -p out/seedruns
for n in $names; do
  d=seeded/$n; [ -f $d/patch.diff ] || continue
  prop=$(python3 -c "import json;print(json.load(open('$d/meta.json'))['property'])")
  if [ -n "$(git -C /repo status --porcelain --untracked-files=no)" ]; then echo "/repo not clean"; exit 2; fi
  git -C /repo apply $PWD/$d/patch.diff || { echo "$n: patch does not apply"; continue; }
  out=$(NSQVC_NO_REPLAY=1 NSQVC_EVIDENCE_DIR=/verif/out/selftest_evidence ./check $prop 2>&1); rc=$?   # evidence of the broken tree goes to a scratch dir
  git -C /repo apply -R $PWD/$d/patch.diff 2>/dev/null || git -C /repo checkout -- .
  echo "$out" > out/seedruns/$n.txt
  if [ $rc -eq 1 ] && echo "$out" | grep -q '^VIOLATION'; then
    echo "$n ($prop): DETECTED  $(echo "$out" | grep -c '^VIOLATION') violation line(s); first: $(echo "$out" | grep -m1 FAILED | cut -c1-160)"
  else
    echo "$n ($prop): MISSED (exit $rc) $(echo "$out" | tail -1 | cut -c1-160)"
  fi
done
