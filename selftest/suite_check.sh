#!/bin/bash
# suite_check.sh [-j N] <seed-name>...: the WHOLE existing test suite passes with each seeded change applied (scratch worktrees under /tmp/sc,
# removed afterwards). Prints "<name> SUITE-OK" or "<name> SUITE-FAIL <last lines>".
cd /verif
J=4; [ "$1" = -j ] && { J=$2; shift 2; }
export GOFLAGS=-mod=mod GOPROXY=off GOSUMDB=off GOTOOLCHAIN=local
one(){ name=$1; wt=/tmp/sc/$name; mkdir -p /tmp/sc; git -C /repo worktree remove --force $wt 2>/dev/null; git -C /repo worktree add -q --detach $wt HEAD || { echo "$name ERROR worktree"; return; }
  cd $wt; export TMPDIR=$wt/.tmp; mkdir -p $TMPDIR
  if git apply /verif/seeded/$name/patch.diff 2>/dev/null; then
    out=$(go test -vet=off -count=1 -timeout 600s ./... 2>&1 | grep -v "no test files" | tail -6)
    if echo "$out" | grep -q FAIL; then echo "$name SUITE-FAIL $(echo "$out" | tr '\n' ' ' | cut -c1-300)"; else echo "$name SUITE-OK"; fi
  else echo "$name ERROR patch does not apply"; fi
  cd /; git -C /repo worktree remove --force $wt 2>/dev/null; rm -rf $wt; }
export -f one
printf '%s\n' "$@" | xargs -P $J -I{} bash -c 'one {}'
