#!/bin/bash
# batch_r4.sh: confirm every fourth-round candidate under /tmp/seed4/*.out/{A,B} that is not yet in /verif/seeded,
# then run the property's quick check against it. Prints one line per candidate.
cd /verif
for d in /tmp/seed4/C??.out/A /tmp/seed4/C??.out/B; do
  [ -f $d/patch.diff ] && [ -f $d/demo_test.go ] || continue
  prop=$(basename $(dirname $d) .out); ab=$(basename $d | tr AB ab); name=$prop-r4$ab
  [ -d seeded/$name ] && continue
  [ -f /tmp/seed4/$name.rejected ] && continue
  out=$(selftest/confirm_seed.sh $d $prop $name 2>&1 | tail -3)
  if echo "$out" | grep -q "^CONFIRMED"; then
    selftest/run_seeds.sh $name
  else
    echo "$name: NOT CONFIRMED: $(echo "$out" | tr '\n' ' ' | cut -c1-300)"; echo "$out" > /tmp/seed4/$name.rejected
  fi
done
