#!/bin/bash
# confirm_seed.sh <seed-src-dir> <property> <name>
# Confirms a seeded change in a scratch worktree (outside /repo and /verif): it compiles, the existing
# test suite (all packages) passes, the demonstration fails with it and passes without it.
# On success copies it to /verif/seeded/<name>/ with meta.json.
set -u
src="$1"; prop="$2"; name="$3"
export GOFLAGS=-mod=mod GOPROXY=off GOSUMDB=off GOTOOLCHAIN=local
wt=/tmp/confirm_$name
git -C /repo worktree remove --force $wt 2>/dev/null
git -C /repo worktree add -q --detach $wt HEAD || exit 2
cleanup(){ git -C /repo worktree remove --force $wt 2>/dev/null; rm -rf $wt; }
trap cleanup EXIT
cd $wt
pkgname=$(grep -m1 '^package ' $src/demo_test.go | awk '{print $2}')
pkgname=${pkgname%_test}
touched=$(grep '^+++ b/' $src/patch.diff | sed 's|+++ b/||' | xargs -n1 dirname | sort -u)
if [ "$pkgname" = main ]; then demodir=$(echo "$touched" | grep '^apps/' | head -1)
  # a demonstration in an apps/* program for a change made elsewhere: the author names the program in the demo or the notes
  [ -z "$demodir" ] && demodir=$(grep -oh 'apps/[a-z_]*' $src/demo_test.go $src/notes.md 2>/dev/null | sort | uniq -c | sort -rn | awk '{print $2}' | head -1)
else
  demodir=$(grep -rl --include=*.go "^package $pkgname\$" . | grep -v _test.go | xargs -n1 dirname | sort -u | head -1); demodir=${demodir#./}; fi
[ -z "$demodir" ] && { echo "cannot place demo"; exit 2; }
testname=$(grep -o 'func Test[A-Za-z0-9_]*' $src/demo_test.go | head -1 | sed 's/func //')
export TMPDIR=$wt/.tmp; mkdir -p $TMPDIR
cp $src/demo_test.go $demodir/zz_seed_demo_test.go
base=$(go test -vet=off -count=1 -timeout 300s -run "^${testname}\$" ./$demodir/ 2>&1 | tail -3)
echo "$base" | grep -q '^ok' || { echo "DEMO DOES NOT PASS ON UNCHANGED CODE: $base"; exit 1; }
git apply $src/patch.diff || { echo "patch does not apply"; exit 1; }
go build ./... || { echo "does not build"; exit 1; }
withp=$(go test -vet=off -count=1 -timeout 300s -run "^${testname}\$" ./$demodir/ 2>&1 | tail -5)
echo "$withp" | grep -q 'FAIL' || { echo "DEMO DOES NOT FAIL WITH THE CHANGE: $withp"; exit 1; }
rm $demodir/zz_seed_demo_test.go
pk=""; for d in $touched; do pk="$pk ./$d/"; done
# the WHOLE existing suite, not only the touched packages (round 7: a change in nsqlookupd made the nsqadmin tests hang)
suite=$(go test -vet=off -count=1 -timeout 600s ./... 2>&1 | grep -v "no test files" | tail -8)
echo "$suite" | grep -q 'FAIL' && { echo "EXISTING TESTS FAIL WITH THE CHANGE: $suite"; exit 1; }
mkdir -p /verif/seeded/$name
cp $src/patch.diff /verif/seeded/$name/patch.diff
cp $src/demo_test.go /verif/seeded/$name/demo_test.go
[ -f $src/notes.md ] && cp $src/notes.md /verif/seeded/$name/notes.md
python3 - "$prop" "$name" "$demodir" "$testname" "$pk" <<'PY'
import json,sys
prop,name,demodir,testname,pk=sys.argv[1:6]
notes=open('/verif/seeded/%s/notes.md'%name).read() if True else ''
json.dump({"property":prop,"breaks":prop,"demo_package_dir":demodir,"demo_test":testname,
 "needs_to_manifest":"see notes.md (written by the independent sub-agent that produced the change)",
 "confirmed":{"worktree":"scratch git worktree of /repo HEAD under /tmp (removed afterwards)",
   "ran":["go build ./...","go test -run ^%s$ ./%s/ without the patch: ok"%(testname,demodir),"same with the patch: FAIL","go test ./... with the patch: ok"]}},
 open('/verif/seeded/%s/meta.json'%name,'w'),indent=1)
PY
echo "CONFIRMED $name"
