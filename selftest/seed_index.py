#!/usr/bin/env python3
"""seed_index.py <run_seeds output file>: writes /verif/seeded/INDEX.md - one row per seeded change: property, files touched,
what the change does (first paragraph of the author's notes), and the obligation that caught it in the given run."""
import sys,os,re,json,glob
res={}
for l in open(sys.argv[1]):
    m=re.match(r'(\S+) \((C\d+)\): (DETECTED|MISSED)(.*)',l)
    if m:
        name,prop,st,rest=m.groups()
        ob=''
        mm=re.search(r'FAILED\s+(\S+)\s+(\S.*?)\s+\((?:z3|cvc5|binder)',rest)
        if mm: ob='`%s` (%s)'%(mm.group(2).strip(),mm.group(1))
        nv=re.search(r'(\d+) violation',rest)
        res[name]=(st,ob,nv.group(1) if nv else '0')
rows=[]
for d in sorted(glob.glob('/verif/seeded/C*')):
    name=os.path.basename(d)
    if not os.path.isfile(d+'/patch.diff'): continue
    meta=json.load(open(d+'/meta.json'))
    files=sorted(set(re.findall(r'^\+\+\+ b/(\S+)',open(d+'/patch.diff').read(),re.M)))
    desc=''
    if os.path.isfile(d+'/notes.md'):
        txt=[x.strip() for x in open(d+'/notes.md').read().split('\n')]
        para=[]
        for x in txt:
            if x.startswith('#') or not x:
                if para: break
                continue
            para.append(x)
        desc=' '.join(para)[:260].replace('|','/')
    st,ob,nv=res.get(name,('not run','','0'))
    rows.append('| %s | %s | %s | %s | %s %s |'%(name,meta['property'],', '.join(files),desc,st,ob))
out=['# Seeded changes (must-fail corpus)','',
'Each directory holds `patch.diff`, `demo_test.go` (passes without / fails with the patch), the author\'s `notes.md` and `meta.json` (what was run to confirm it).',
'Produced by independent sub-agents that saw only the property text and a scratch worktree without the contract files. Last column: result of',
'`selftest/run_seeds.sh` (quick check of the property with the patch applied to /repo, then reverted) and the first failing obligation.','',
'| seed | property | files | change (author\'s words) | result |','|---|---|---|---|---|']+rows
det=sum(1 for n in res if res[n][0]=='DETECTED'); 
out+=['','%d seeds, %d detected in this run.'%(len(rows),det)]
open('/verif/seeded/INDEX.md','w').write('\n'.join(out)+'\n')
print(len(rows),'seeds,',det,'detected')
