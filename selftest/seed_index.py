#!/usr/bin/env python3
"""seed_index.py <run_seeds output file>: also writes /verif/replay/seed_index.json (obligations that caught a seed -> its demonstration test,
used as replay adapters: a demonstration that FAILS on the tree under check is a concrete failing input / schedule on the real code).
Writes /verif/seeded/INDEX.md - one row per seeded change: property, files touched,
what the change does (first paragraph of the author's notes), and the obligation that caught it in the given run."""
import sys,os,re,json,glob
res={}
for l in open(sys.argv[1]):
    m=re.match(r'(\S+) \((C\d+)\): (DETECTED|MISSED)(.*)',l)
    if m:
        name,prop,st,rest=m.groups()
        ob=''
        mm=re.search(r'FAILED\s+(\S+)\s+(\S.*?)\s+\((?:z3|cvc5|binder)',rest)
        if mm: ob='`%s` (%s)'%(mm.group(2).strip(),mm.group(1))
        nv=re.search(r'(\d+) violation',rest)
        res[name]=(st,ob,nv.group(1) if nv else '0')
rows=[]
for d in sorted(glob.glob('/verif/seeded/C*')):
    name=os.path.basename(d)
    if not os.path.isfile(d+'/patch.diff'): continue
    meta=json.load(open(d+'/meta.json'))
    files=sorted(set(re.findall(r'^\+\+\+ b/(\S+)',open(d+'/patch.diff').read(),re.M)))
    desc=''
    if os.path.isfile(d+'/notes.md'):
        txt=[x.strip() for x in open(d+'/notes.md').read().split('\n')]
        para=[]
        for x in txt:
            if x.startswith('#') or not x:
                if para: break
                continue
            para.append(x)
        desc=' '.join(para)[:260].replace('|','/')
    st,ob,nv=res.get(name,('not run','','0'))
    rows.append('| %s | %s | %s | %s | %s %s |'%(name,meta['property'],', '.join(files),desc,st,ob))
out=['# Seeded changes (must-fail corpus)','',
'Each directory holds `patch.diff`, `demo_test.go` (passes without / fails with the patch), the author\'s `notes.md` and `meta.json` (what was run to confirm it).',
'Produced by independent sub-agents that saw only the property text and a scratch worktree without the contract files. Last column: result of',
'`selftest/run_seeds.sh` (quick check of the property with the patch applied to /repo, then reverted) and the first failing obligation.','',
'| seed | property | files | change (author\'s words) | result |','|---|---|---|---|---|']+rows
det=sum(1 for n in res if res[n][0]=='DETECTED'); 
out+=['','%d seeds, %d detected in this run.'%(len(rows),det)]
open('/verif/seeded/INDEX.md','w').write('\n'.join(out)+'\n')
# replay adapters from the full outputs of the runs
adapters=[]
for d in sorted(glob.glob('/verif/seeded/C*')):
    name=os.path.basename(d); f='/verif/out/seedruns/%s.txt'%name
    if not os.path.isfile(f) or not os.path.isfile(d+'/demo_test.go'): continue
    meta=json.load(open(d+'/meta.json'))
    obs=[]
    for l in open(f):
        m=re.match(r'\s+FAILED\s+(\S+)\s+(\S.*?)\s+\((?:z3|cvc5|binder)',l)
        if m and m.group(1)!='violated':
            ob=re.sub(r'#\d+$','',m.group(2).strip())
            if ob not in obs: obs.append(ob)
    for ob in obs[:6]:
        adapters.append({"obligation":re.escape(ob)+r'(#\d+)?$',"dir":meta['demo_package_dir'],"file":"seeded/%s/demo_test.go"%name,
            "test":meta['demo_test'],"what":"demonstration test of seeded change %s (written from the property text by an independent author; passes on healthy code)"%name})
json.dump(adapters,open('/verif/replay/seed_index.json','w'),indent=1)
print(len(rows),'seeds,',det,'detected;',len(adapters),'replay adapters from demonstrations')
