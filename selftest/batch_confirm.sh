#!/bin/bash
# batch_confirm.sh <round-dir> <tag>: confirm every candidate under <round-dir>/C??.out/{A,B} that is not yet in /verif/seeded (name C??-<tag>a|b);
# prints CONFIRMED / NOT CONFIRMED per candidate. Run selftest/run_seeds_par.sh on the new names afterwards.
cd /verif
dir=$1; tag=$2
for d in $dir/C??.out/A $dir/C??.out/B; do
  [ -f $d/patch.diff ] && [ -f $d/demo_test.go ] || continue
  prop=$(basename $(dirname $d) .out); ab=$(basename $d | tr AB ab); name=$prop-$tag$ab
  [ -d seeded/$name ] && continue
  [ -f $dir/$name.rejected ] && continue
  out=$(selftest/confirm_seed.sh $d $prop $name 2>&1 | tail -3)
  if echo "$out" | grep -q "^CONFIRMED"; then echo "$name CONFIRMED"
  else echo "$name: NOT CONFIRMED: $(echo "$out" | tr '\n' ' ' | cut -c1-300)"; echo "$out" > $dir/$name.rejected; fi
done
