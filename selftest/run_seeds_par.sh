#!/bin/bash
# run_seeds_par.sh [-j N] [name ...]: like run_seeds.sh, but each seeded change is applied to its own scratch git worktree of /repo's HEAD
# (under /tmp/sr, removed afterwards) and N checks run side by side. /repo itself is not touched. Output: one line per seed, full
# outputs in out/seedruns/<name>.txt.
cd /verif
J=4
if [ "$1" = "-j" ]; then J=$2; shift 2; fi
names="$@"; [ -z "$names" ] && names=$(ls seeded | grep '^C')
mkdir -p out/seedruns /tmp/sr
one() {
  n=$1; d=/verif/seeded/$n; [ -f $d/patch.diff ] || exit 0
  prop=$(python3 -c "import json;print(json.load(open('$d/meta.json'))['property'])")
  wt=/tmp/sr/$n
  git -C /repo worktree remove --force $wt >/dev/null 2>&1; rm -rf $wt $wt.out
  git -C /repo worktree add -q --detach $wt HEAD || { echo "$n: cannot create worktree"; exit 0; }
  if git -C $wt apply $d/patch.diff 2>/dev/null; then
    out=$(NSQVC_NO_REPLAY=1 /verif/bin/nsqvc check -prop $prop -tier quick -repo $wt -out $wt.out 2>&1); rc=$?
    echo "$out" > /verif/out/seedruns/$n.txt
    if [ $rc -eq 1 ] && echo "$out" | grep -q '^VIOLATION'; then
      echo "$n ($prop): DETECTED  $(echo "$out" | grep -c '^VIOLATION') violation line(s); first: $(echo "$out" | grep -m1 FAILED | cut -c1-160)"
    else
      echo "$n ($prop): MISSED (exit $rc) $(echo "$out" | tail -1 | cut -c1-160)"
    fi
  else
    echo "$n ($prop): patch does not apply"
  fi
  git -C /repo worktree remove --force $wt >/dev/null 2>&1; rm -rf $wt $wt.out
}
export -f one
echo $names | tr ' ' '\n' | xargs -P $J -I{} bash -c 'one {}'
git -C /repo worktree prune
