package nsqd

// Replay for the finding "--queue-scan-selection-count=0: the queue scan never selects a channel, so an in-flight message whose timeout
// expired is never requeued" (C04). Passes when New refuses the configuration or the timed-out message comes back.

import (
	"testing"
	"time"
)

func TestReplayQueueScanSelectionCountZero(t *testing.T) {
	opts := NewOptions()
	opts.Logger = nil
	opts.TCPAddress = "127.0.0.1:0"
	opts.HTTPAddress = "127.0.0.1:0"
	opts.HTTPSAddress = "127.0.0.1:0"
	opts.DataPath = t.TempDir()
	opts.QueueScanSelectionCount = 0
	opts.QueueScanInterval = 10 * time.Millisecond
	opts.MsgTimeout = 50 * time.Millisecond
	n, err := New(opts)
	if err != nil {
		t.Logf("configuration refused: %v", err)
		return
	}
	go n.Main()
	defer n.Exit()
	topic := n.GetTopic("replay_qssc")
	ch := topic.GetChannel("ch")
	msg := NewMessage(topic.GenerateID(), []byte("x"))
	if err := topic.PutMessage(msg); err != nil {
		t.Fatal(err)
	}
	var m *Message
	select {
	case m = <-ch.memoryMsgChan:
	case <-time.After(2 * time.Second):
		t.Fatal("message not delivered to the channel")
	}
	if err := ch.StartInFlightTimeout(m, 1, 50*time.Millisecond); err != nil {
		t.Fatal(err)
	}
	select {
	case <-ch.memoryMsgChan:
	case <-time.After(3 * time.Second):
		t.Fatal("in-flight message was not requeued 3s after its 50ms timeout: the queue scan never runs with --queue-scan-selection-count=0")
	}
}
