package nsqlookupd

// Replay of the counterexample to IDENTIFY/safety[make]: the solver's model has bodyLen < 0.
// The bytes are sent to the real protocol loop; a panic is reported as a test failure.

import (
	"net"
	"testing"
	"time"
)

func TestVerifReplayIdentifyBodyLen(t *testing.T) {
	opts := NewOptions()
	opts.Logger = nil
	opts.TCPAddress = "127.0.0.1:0"
	opts.HTTPAddress = "127.0.0.1:0"
	nsqlookupd, err := New(opts)
	if err != nil {
		t.Fatal(err)
	}
	defer nsqlookupd.Exit()
	prot := &LookupProtocolV1{nsqlookupd: nsqlookupd}
	srv, cli := net.Pipe()
	done := make(chan interface{}, 1)
	go func() {
		defer func() { done <- recover() }()
		prot.IOLoop(prot.NewClient(srv))
	}()
	go func() {
		cli.Write([]byte("IDENTIFY\n"))
		cli.Write([]byte{0xff, 0xff, 0xff, 0xff}) // int32(-1)
		buf := make([]byte, 256)
		cli.SetReadDeadline(time.Now().Add(2 * time.Second))
		cli.Read(buf)
		cli.Close()
	}()
	select {
	case r := <-done:
		if r != nil {
			t.Fatalf("protocol loop panicked on IDENTIFY with body length -1: %v", r)
		}
	case <-time.After(5 * time.Second):
		t.Fatal("protocol loop did not return")
	}
}
