package nsqd

// Replay of the counterexample to (*nsqd.protocolV2).REQ/ensures[delay]:
// the delay handed to Channel.RequeueMessage must be min(ms * 1ms, max-req-timeout), but REQ computes
// time.Duration(ms) * time.Millisecond in int64 BEFORE clamping. For ms >= 9223372036855 the product wraps:
//   "9223372036855"    -> negative  -> clamped to 0        -> requeued immediately
//   "18446744073710"   -> 448384 ns -> passes the clamp    -> deferred for 0.4 ms
// instead of being deferred for max-req-timeout (1 h by default). The real REQ handler is driven directly.

import (
	"net"
	"os"
	"testing"
	"time"
)

func TestVerifReplayReqTimeoutOverflow(t *testing.T) {
	opts := NewOptions()
	opts.Logger = nil
	opts.TCPAddress = "127.0.0.1:0"
	opts.HTTPAddress = "127.0.0.1:0"
	opts.HTTPSAddress = "127.0.0.1:0"
	dir, err := os.MkdirTemp("", "nsq-verif-replay-")
	if err != nil {
		t.Fatal(err)
	}
	defer os.RemoveAll(dir)
	opts.DataPath = dir
	nsqd, err := New(opts)
	if err != nil {
		t.Fatal(err)
	}
	defer nsqd.Exit()

	topic := nsqd.GetTopic("replay_req")
	ch := topic.GetChannel("ch")
	prot := &protocolV2{nsqd: nsqd}
	a, b := net.Pipe()
	defer a.Close()
	defer b.Close()
	client := newClientV2(7, a, nsqd)
	client.Channel = ch
	client.State = stateSubscribed

	maxReq := nsqd.getOpts().MaxReqTimeout
	for _, ms := range []string{"9223372036855", "18446744073710", "9223372036854776"} {
		msg := NewMessage(topic.GenerateID(), []byte("x"))
		if err := ch.StartInFlightTimeout(msg, client.ID, time.Minute); err != nil {
			t.Fatal(err)
		}
		client.SendingMessage()
		before := time.Now()
		_, err := prot.REQ(client, [][]byte{[]byte("REQ"), msg.ID[:], []byte(ms)})
		if err != nil {
			t.Fatalf("REQ %s: %v", ms, err)
		}
		ch.deferredMutex.Lock()
		item, deferred := ch.deferredMessages[msg.ID]
		ch.deferredMutex.Unlock()
		if !deferred {
			t.Errorf("REQ with timeout %s ms (> max-req-timeout %s): message was requeued immediately instead of being deferred for max-req-timeout", ms, maxReq)
			continue
		}
		delay := time.Duration(item.Priority - before.UnixNano())
		if delay < maxReq-time.Second {
			t.Errorf("REQ with timeout %s ms (> max-req-timeout %s): deferred for %s instead of max-req-timeout", ms, maxReq, delay)
		}
	}
}
