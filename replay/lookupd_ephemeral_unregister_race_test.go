package nsqlookupd

// Replay of the counterexample to (*LookupProtocolV1).UNREGISTER/ensures[drops-only-empty-registrations]: UNREGISTER decides
// that an ephemeral registration is empty (RemoveProducer returned left == 0, registry lock released) and THEN removes the
// registration in a second critical section (RemoveRegistration). A REGISTER of another nsqd that lands between the two is
// wiped together with the key: that nsqd is connected, has registered the topic and never unregistered it, yet /lookup answers
// TOPIC_NOT_FOUND (or omits it) - no ordering of the two commands in a plain registry model gives that answer
// (UNREGISTER;REGISTER and REGISTER;UNREGISTER both end with the second nsqd listed).
// The interleaving is produced with real goroutines calling the real command handlers on a shared registry; the test
// fails when the defect reproduces (usually within a few hundred rounds).

import (
	"net/http"
	"net/http/httptest"
	"strings"
	"sync"
	"testing"
	"time"

	"github.com/nsqio/nsq/internal/test"
)

func TestVerifReplayEphemeralUnregisterRace(t *testing.T) {
	opts := NewOptions()
	opts.Logger = nil
	opts.LogLevel = LOG_ERROR // quiet; the race does not depend on the log calls
	opts.TCPAddress = "127.0.0.1:0"
	opts.HTTPAddress = "127.0.0.1:0"
	l, err := New(opts)
	if err != nil {
		t.Fatal(err)
	}
	defer l.Exit()
	prot := &LookupProtocolV1{nsqlookupd: l}
	srv := newHTTPServer(l)

	newClient := func(id string) *ClientV1 {
		c := NewClientV1(test.NewFakeNetConn())
		c.peerInfo = &PeerInfo{id: id, BroadcastAddress: "host-" + id, TCPPort: 4150, HTTPPort: 4151, Version: "1", lastUpdate: time.Now().UnixNano()}
		return c
	}
	a, b := newClient("127.0.0.1:5001"), newClient("127.0.0.1:5002")
	const topic = "race#ephemeral"

	deadline := time.Now().Add(20 * time.Second)
	for round := 0; round < 200000 && time.Now().Before(deadline); round++ {
		// nsqd A is the only producer of the ephemeral topic
		if _, err := prot.REGISTER(a, nil, []string{topic}); err != nil {
			t.Fatal(err)
		}
		var wg sync.WaitGroup
		start := make(chan struct{})
		wg.Add(2)
		go func() { // nsqd A drops the topic ...
			defer wg.Done()
			<-start
			prot.UNREGISTER(a, nil, []string{topic})
		}()
		go func() { // ... while nsqd B registers it
			defer wg.Done()
			<-start
			prot.REGISTER(b, nil, []string{topic})
		}()
		close(start)
		wg.Wait()

		// both commands have been answered OK; B registered the topic, is connected, pinged just now, is not tombstoned
		w := httptest.NewRecorder()
		srv.ServeHTTP(w, httptest.NewRequest("GET", "/lookup?topic="+topic, strings.NewReader("")))
		if w.Code != http.StatusOK || !strings.Contains(w.Body.String(), "host-127.0.0.1:5002") {
			t.Fatalf("round %d: nsqd B registered %q and never unregistered it, but GET /lookup answers %d %s",
				round, topic, w.Code, strings.TrimSpace(w.Body.String()))
		}
		// back to the start: B leaves (it is the last producer, so the ephemeral topic goes away)
		if _, err := prot.UNREGISTER(b, nil, []string{topic}); err != nil {
			t.Fatal(err)
		}
	}
}
