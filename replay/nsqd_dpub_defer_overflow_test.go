package nsqd

// Replay of the counterexample to (*protocolV2).DPUB/ensures[delay-in-range] and ensures[deferred-by-delay]:
// the delay parameter is multiplied by time.Millisecond in int64 BEFORE the range check, so a huge delay whose
// product wraps into [0, max-req-timeout] is accepted. 18446744073710 ms * 1e6 = 2^64 + 448384 ns.
// The command is handed to the real DPUB handler of a real nsqd; the test fails when the defect reproduces.

import (
	"net"
	"os"
	"testing"
	"time"
)

func TestVerifReplayDPUBDeferOverflow(t *testing.T) {
	opts := NewOptions()
	opts.Logger = nil
	opts.TCPAddress = "127.0.0.1:0"
	opts.HTTPAddress = "127.0.0.1:0"
	dir, err := os.MkdirTemp("", "nsq-verif-replay-")
	if err != nil {
		t.Fatal(err)
	}
	defer os.RemoveAll(dir)
	opts.DataPath = dir
	nsqd, err := New(opts)
	if err != nil {
		t.Fatal(err)
	}
	defer nsqd.Exit()

	srv, cli := net.Pipe()
	defer cli.Close()
	defer srv.Close()
	go cli.Write([]byte{0, 0, 0, 1, 'x'}) // [size=1]["x"]

	prot := &protocolV2{nsqd: nsqd}
	client := newClientV2(1, srv, nsqd)
	const delayMs = "18446744073710" // ~584 years; max-req-timeout is 1h
	type res struct {
		out []byte
		err error
	}
	done := make(chan res, 1)
	go func() {
		out, err := prot.DPUB(client, [][]byte{[]byte("DPUB"), []byte("verif_replay_dpub"), []byte(delayMs)})
		done <- res{out, err}
	}()
	select {
	case r := <-done:
		if r.err == nil {
			topic := nsqd.GetTopic("verif_replay_dpub")
			t.Fatalf("DPUB with delay %s ms (max-req-timeout %v) answered %q and enqueued %d message(s); E_INVALID expected",
				delayMs, opts.MaxReqTimeout, r.out, topic.Depth())
		}
	case <-time.After(5 * time.Second):
		t.Fatal("DPUB did not return")
	}
}
