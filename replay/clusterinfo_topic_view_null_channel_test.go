package clusterinfo

// Replay for (*TopicStats).Add/invariant[loop1.a-channel-real.entry] (types.go:137,
// `aChannelStats.ChannelName` with a nil aChannelStats): an nsqd answers /stats with a null entry in a
// topic's "channels" array. GetNSQDStats$1 skips the null channel for the channel map but leaves it in
// topic.Channels, and nsqadmin's topic view (topicHandler: allNodesTopicStats.Add(t) for every node)
// dereferences it. The document is fetched by the real GetNSQDStats from a real HTTP server; the
// aggregation loop is the one of nsqadmin/http.go:292-295.

import (
	"net"
	"net/http"
	"net/http/httptest"
	"strconv"
	"testing"
	"time"

	"github.com/nsqio/nsq/internal/http_api"
)

func TestVerifReplayTopicViewNullChannel(t *testing.T) {
	for _, doc := range []string{
		`{"topics":[{"topic_name":"t","channels":[{"channel_name":"c"},null]}]}`,
		`{"topics":[{"topic_name":"t","channels":[null]},{"topic_name":"t","channels":[null]}]}`,
	} {
		func() {
			srv := httptest.NewServer(http.HandlerFunc(func(w http.ResponseWriter, r *http.Request) {
				w.Header().Set("Content-Type", "application/json")
				w.Write([]byte(doc))
			}))
			defer srv.Close()
			host, port, _ := net.SplitHostPort(srv.Listener.Addr().String())
			n, _ := strconv.Atoi(port)
			ci := New(nil, http_api.NewClient(nil, 2*time.Second, 2*time.Second))
			topicStats, _, err := ci.GetNSQDStats(Producers{&Producer{BroadcastAddress: host, HTTPPort: n, Hostname: "h"}}, "t", "", false)
			if err != nil {
				t.Fatalf("%s: %v", doc, err)
			}
			defer func() {
				if r := recover(); r != nil {
					t.Errorf("upstream document %s crashed the topic view: %v", doc, r)
				}
			}()
			all := &TopicStats{TopicName: "t"}
			for _, ts := range topicStats {
				all.Add(ts)
			}
			for _, c := range all.Channels {
				if c == nil {
					t.Errorf("upstream document %s: the merged channel list holds a nil channel", doc)
				}
			}
		}()
	}
}
