package nsqd

// Replay of the same defect as nsqd_dpub_defer_overflow_test.go on the HTTP path (C10: /pub obeys the same defer limits as
// DPUB): doPUB multiplies the `defer` argument by time.Millisecond in int64 before the range check, so
// defer=18446744073710 (ms) wraps to 448384 ns and is accepted although max-req-timeout is 1h.
// The request is sent to a real nsqd over HTTP; the test fails when the defect reproduces.

import (
	"bytes"
	"fmt"
	"net/http"
	"os"
	"testing"
)

func TestVerifReplayHTTPPubDeferOverflow(t *testing.T) {
	opts := NewOptions()
	opts.Logger = nil
	_, httpAddr, nsqd := mustStartNSQD(opts)
	defer os.RemoveAll(opts.DataPath)
	defer nsqd.Exit()

	// ~584 years, and a NEGATIVE delay whose product wraps to +551616 ns
	for _, delayMs := range []string{"18446744073710", "-18446744073709"} {
		url := fmt.Sprintf("http://%s/pub?topic=verif_replay_http_defer&defer=%s", httpAddr, delayMs)
		resp, err := http.Post(url, "application/octet-stream", bytes.NewBufferString("x"))
		if err != nil {
			t.Fatal(err)
		}
		resp.Body.Close()
		if resp.StatusCode != 400 {
			t.Errorf("POST /pub?defer=%s (max-req-timeout %v) answered %d; 400 INVALID_DEFER expected", delayMs, opts.MaxReqTimeout, resp.StatusCode)
		}
	}
}
