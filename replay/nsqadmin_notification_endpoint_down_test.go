package nsqadmin

// Replay for the failed obligation
//   (*nsqadmin.NSQAdmin).handleAdminActions/safety[nil]#13  (nsqadmin/nsqadmin.go:164 `resp.Body.Close()`, resp == nil)
// Input: nsqadmin configured with --notification-http-endpoint pointing at an endpoint that does not answer (connection
// refused); one admin action is notified. http.Client.Post returns (nil, err); the error is logged and then
// `resp.Body.Close()` dereferences the nil response: the notification goroutine panics, which ends the nsqadmin process.
// Copy to nsqadmin/ and run: go test -vet=off -count=1 -run TestR4DNotificationEndpointDown ./nsqadmin/
// Fails on the unchanged tree, passes with fixes/c18_notification_endpoint_down.patch.

import (
	"net"
	"testing"
	"time"

	"github.com/nsqio/nsq/internal/test"
)

func TestR4DNotificationEndpointDown(t *testing.T) {
	// a port that refuses connections: listen, remember the address, close
	l, err := net.Listen("tcp", "127.0.0.1:0")
	if err != nil {
		t.Fatal(err)
	}
	dead := l.Addr().String()
	l.Close()

	opts := NewOptions()
	opts.Logger = test.NewTestLogger(t)
	opts.HTTPAddress = "127.0.0.1:0"
	opts.NSQLookupdHTTPAddresses = []string{"127.0.0.1:1"}
	opts.NotificationHTTPEndpoint = "http://" + dead + "/notify"
	opts.HTTPClientConnectTimeout = 500 * time.Millisecond
	opts.HTTPClientRequestTimeout = 500 * time.Millisecond
	n, err := New(opts)
	if err != nil {
		t.Fatal(err)
	}
	defer n.httpListener.Close()

	// what notifyAdminAction's goroutine does, then what Exit does
	go func() {
		n.notifications <- &AdminAction{Action: "pause_topic", Topic: "t"}
		close(n.notifications)
	}()

	done := make(chan interface{}, 1)
	go func() {
		defer func() { done <- recover() }()
		n.handleAdminActions() // in production a panic here is not recovered: the process dies
	}()
	select {
	case r := <-done:
		if r != nil {
			t.Fatalf("notification pump crashed on an unreachable endpoint: %v", r)
		}
	case <-time.After(10 * time.Second):
		t.Fatal("notification pump did not finish")
	}
}
