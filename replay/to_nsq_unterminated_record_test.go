package main

// Replay of the counterexample to main.readAndPublish/ensures[record-exact] (C20): the data returned
// by ReadBytes does not end in the delimiter (final record at EOF), yet its last byte is cut off.
// The real readAndPublish is driven with a real nsq.Producer that talks to a minimal in-process
// fake nsqd (accepts IDENTIFY and PUB, answers OK, records the PUB bodies). The test fails when the
// published records differ from the delimiter-separated records of the input.

import (
	"bufio"
	"bytes"
	"encoding/binary"
	"io"
	"net"
	"reflect"
	"strings"
	"sync"
	"testing"
	"time"

	"github.com/nsqio/go-nsq"
)

type verifFakeNsqd struct {
	sync.Mutex
	bodies []string
}

func (f *verifFakeNsqd) respond(c net.Conn, data string) {
	buf := make([]byte, 8+len(data))
	binary.BigEndian.PutUint32(buf[0:4], uint32(4+len(data)))
	binary.BigEndian.PutUint32(buf[4:8], 0) // FrameTypeResponse
	copy(buf[8:], data)
	c.Write(buf)
}

func (f *verifFakeNsqd) serve(c net.Conn) {
	defer c.Close()
	r := bufio.NewReader(c)
	magic := make([]byte, 4)
	if _, err := io.ReadFull(r, magic); err != nil {
		return
	}
	for {
		line, err := r.ReadString('\n')
		if err != nil {
			return
		}
		cmd := strings.Fields(line)
		if len(cmd) == 0 {
			continue
		}
		switch cmd[0] {
		case "IDENTIFY", "PUB":
			var sz int32
			if err := binary.Read(r, binary.BigEndian, &sz); err != nil {
				return
			}
			body := make([]byte, sz)
			if _, err := io.ReadFull(r, body); err != nil {
				return
			}
			if cmd[0] == "PUB" {
				f.Lock()
				f.bodies = append(f.bodies, string(body))
				f.Unlock()
			}
			f.respond(c, "OK")
		case "NOP":
		case "CLS":
			f.respond(c, "CLOSE_WAIT")
		}
	}
}

func verifRelay(t *testing.T, input string, delim byte) []string {
	l, err := net.Listen("tcp", "127.0.0.1:0")
	if err != nil {
		t.Fatal(err)
	}
	defer l.Close()
	fake := &verifFakeNsqd{}
	go func() {
		for {
			c, err := l.Accept()
			if err != nil {
				return
			}
			go fake.serve(c)
		}
	}()
	cfg := nsq.NewConfig()
	cfg.DialTimeout = 2 * time.Second
	p, err := nsq.NewProducer(l.Addr().String(), cfg)
	if err != nil {
		t.Fatal(err)
	}
	p.SetLogger(nil, nsq.LogLevelError)
	defer p.Stop()
	*topic = "verif_replay"
	producers := map[string]*nsq.Producer{l.Addr().String(): p}
	r := bufio.NewReader(bytes.NewBufferString(input))
	for i := 0; i < 100; i++ {
		if err := readAndPublish(r, delim, producers); err != nil {
			if err != io.EOF {
				t.Fatalf("readAndPublish: %v", err)
			}
			break
		}
	}
	fake.Lock()
	defer fake.Unlock()
	return append([]string(nil), fake.bodies...)
}

func TestVerifReplayToNsqUnterminatedRecord(t *testing.T) {
	// every non-empty delimiter-separated record, byte-exact and in order, including the last one
	got := verifRelay(t, "one\ntwo\n\nlast", '\n')
	want := []string{"one", "two", "last"}
	if !reflect.DeepEqual(got, want) {
		t.Fatalf("input %q: published %q, want %q (final record without trailing delimiter is truncated)", "one\ntwo\n\nlast", got, want)
	}
	// a one-byte final record is lost altogether
	got = verifRelay(t, "a;b", ';')
	want = []string{"a", "b"}
	if !reflect.DeepEqual(got, want) {
		t.Fatalf("input %q: published %q, want %q", "a;b", got, want)
	}
}
