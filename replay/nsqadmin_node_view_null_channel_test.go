package nsqadmin

// Replay for the failed obligation
//   (*nsqadmin.httpServer).nodeHandler/safety[nil]#22  (nsqadmin/http.go:393 `len(cs.Clients)`, cs == nil)
// Input: an nsqd whose /stats lists a null channel: {"topics":[{"topic_name":"t","channels":[{"channel_name":"c"},null]}]}.
// clusterinfo.GetNSQDStats skips the null entry when it fills the channel map but leaves it in topic.Channels; the node view
// then dereferences it: GET /api/nodes/<node> is answered 500 "panic in HTTP handler" instead of a view built from the rest
// (C18: "if some upstreams ... answer garbage the view is built from the rest"). Same input family as fix 53c24cb (topic view).
// Copy to nsqadmin/ and run: go test -vet=off -count=1 -run TestR4DNodeViewNullChannel ./nsqadmin/
// Fails on the unchanged tree, passes with fixes/c18_node_view_null_channel.patch.

import (
	"fmt"
	"net"
	"net/http"
	"net/http/httptest"
	"strconv"
	"testing"

	"github.com/nsqio/nsq/internal/test"
)

func TestR4DNodeViewNullChannel(t *testing.T) {
	var host string
	var port int
	mux := http.NewServeMux()
	mux.HandleFunc("/info", func(w http.ResponseWriter, r *http.Request) {
		w.Header().Set("Content-Type", "application/json")
		fmt.Fprintf(w, `{"version":"1.2.1","broadcast_address":%q,"hostname":"stub","http_port":%d,"tcp_port":%d}`, host, port, port+1)
	})
	mux.HandleFunc("/stats", func(w http.ResponseWriter, r *http.Request) {
		w.Header().Set("Content-Type", "application/json")
		fmt.Fprint(w, `{"version":"1.2.1","health":"OK","topics":[{"topic_name":"t","depth":1,"message_count":5,"channels":[{"channel_name":"c","clients":[]},null]}]}`)
	})
	srv := httptest.NewServer(mux)
	defer srv.Close()
	h, p, err := net.SplitHostPort(srv.Listener.Addr().String())
	if err != nil {
		t.Fatal(err)
	}
	host = h
	port, _ = strconv.Atoi(p)

	opts := NewOptions()
	opts.HTTPAddress = "127.0.0.1:0"
	opts.NSQDHTTPAddresses = []string{srv.Listener.Addr().String()}
	opts.Logger = test.NewTestLogger(t)
	nsqadmin1, err := New(opts)
	if err != nil {
		t.Fatal(err)
	}
	defer nsqadmin1.Exit()
	admin := NewHTTPServer(nsqadmin1)

	req := httptest.NewRequest("GET", "/api/nodes/"+net.JoinHostPort(host, p), nil)
	w := httptest.NewRecorder()
	admin.ServeHTTP(w, req)
	if w.Code != 200 {
		t.Fatalf("GET /api/nodes/%s with a null channel in the nsqd's /stats: status %d, want 200; body %s",
			net.JoinHostPort(host, p), w.Code, w.Body.String())
	}
}
