package nsqd

// Replay of the counterexample to nsqd.readResponseBounded/safety[make]: the announced response
// size (int32, big endian) is negative, so it passes the `int64(msgSize) > limit` check and reaches
// make([]byte, msgSize). A fake nsqlookupd answers the first command of a real lookupPeer with the
// size prefix ff ff ff ff (= -1); a panic in Command is reported as a test failure (in nsqd the
// panic happens in the lookupLoop goroutine and takes the whole process down).

import (
	"bytes"
	"io"
	"net"
	"testing"
	"time"

	"github.com/nsqio/go-nsq"
	"github.com/nsqio/nsq/internal/lg"
)

func TestVerifReplayLookupNegativeSize(t *testing.T) {
	// 1. the function itself, on the solver's input class (msgSize < 0, any limit)
	func() {
		defer func() {
			if r := recover(); r != nil {
				t.Errorf("readResponseBounded panicked on size prefix -1: %v", r)
			}
		}()
		_, err := readResponseBounded(bytes.NewReader([]byte{0xff, 0xff, 0xff, 0xff}), 1024)
		if err == nil {
			t.Errorf("readResponseBounded accepted a negative size prefix")
		}
	}()

	// 2. end to end through lookupPeer.Command against a lookupd that replies with a negative size
	ln, err := net.Listen("tcp", "127.0.0.1:0")
	if err != nil {
		t.Fatal(err)
	}
	defer ln.Close()
	go func() {
		c, err := ln.Accept()
		if err != nil {
			return
		}
		defer c.Close()
		c.SetDeadline(time.Now().Add(5 * time.Second))
		magic := make([]byte, 4)
		io.ReadFull(c, magic)
		line := make([]byte, 5) // "PING\n"
		io.ReadFull(c, line)
		c.Write([]byte{0x80, 0x00, 0x00, 0x00}) // int32 min
		time.Sleep(200 * time.Millisecond)
	}()
	logf := func(lvl lg.LogLevel, f string, args ...interface{}) {}
	lp := newLookupPeer(ln.Addr().String(), 1024*1024, logf, func(*lookupPeer) {})
	done := make(chan interface{}, 1)
	go func() {
		defer func() { done <- recover() }()
		_, err := lp.Command(nsq.Ping())
		if err == nil {
			t.Errorf("Command accepted a reply with a negative size prefix")
		}
		if lp.state != stateDisconnected {
			t.Errorf("peer not disconnected after a malformed reply")
		}
	}()
	select {
	case r := <-done:
		if r != nil {
			t.Fatalf("lookupPeer.Command panicked on a negative-sized reply: %v", r)
		}
	case <-time.After(10 * time.Second):
		t.Fatal("Command did not return")
	}
}
