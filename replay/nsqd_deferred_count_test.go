package nsqd

// Replay of the counterexample to (*Channel).PutMessageDeferred/ensures[counted-means-deferred]:
// PutMessageDeferred bumps messageCount first and then discards the error of StartDeferredTimeout.
// When the message id is already registered in the channel's deferred map (model: the duplicate
// branch of pushDeferredMessage) the message is counted as received by the channel but is stored
// nowhere: it is never delivered, and /stats no longer adds up
// (message_count != depth + in_flight + deferred + finished).

import (
	"os"
	"testing"
	"time"
)

func TestVerifReplayPutMessageDeferredDuplicate(t *testing.T) {
	opts := NewOptions()
	opts.Logger = nil
	opts.TCPAddress = "127.0.0.1:0"
	opts.HTTPAddress = "127.0.0.1:0"
	opts.HTTPSAddress = "127.0.0.1:0"
	dir, err := os.MkdirTemp("", "nsq-verif-replay-")
	if err != nil {
		t.Fatal(err)
	}
	defer os.RemoveAll(dir)
	opts.DataPath = dir
	nsqd, err := New(opts)
	if err != nil {
		t.Fatal(err)
	}
	defer nsqd.Exit()
	topic := nsqd.GetTopic("replay_deferred_count")
	ch := topic.GetChannel("ch")

	id := topic.GenerateID()
	first := NewMessage(id, []byte("first"))
	second := NewMessage(id, []byte("second")) // same id: the duplicate branch of pushDeferredMessage
	ch.PutMessageDeferred(first, time.Hour)
	ch.PutMessageDeferred(second, time.Hour)

	st := NewChannelStats(ch, nil, 0)
	held := uint64(st.Depth) + uint64(st.InFlightCount) + uint64(st.DeferredCount)
	if st.MessageCount != held {
		t.Fatalf("channel counted %d received messages but holds only %d (depth %d, in flight %d, deferred %d): "+
			"the second deferred publish was counted and silently dropped",
			st.MessageCount, held, st.Depth, st.InFlightCount, st.DeferredCount)
	}
}
