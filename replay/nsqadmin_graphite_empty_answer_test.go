package nsqadmin

// Replay for the failed obligations
//   (*nsqadmin.httpServer).graphiteHandler/safety[index]#5, #6, #7 and safety[nil]#18
//   (nsqadmin/http.go:742 `rate := *response[0].DataPoints[0][0]`)
// Input: a Graphite /render answer without a usable first data point - all three are ordinary Graphite answers:
//   []                                         (the target matches no series)
//   [{"target":"t","datapoints":[]}]           (series without points in the window)
//   [{"target":"t","datapoints":[[null,1]]}]   (no value recorded for the interval: Graphite writes null)
// The handler indexes / dereferences without a check: GET /api/graphite?metric=rate&target=... is answered
// 500 "panic in HTTP handler" (index out of range / nil pointer dereference recovered by the router) instead of the
// "N/A" rate the handler already uses for "no rate" (C18: an upstream answering garbage must not crash a view).
// Copy to nsqadmin/ and run: go test -vet=off -count=1 -run TestR5HGraphiteEmptyAnswer ./nsqadmin/
// Fails on the unchanged tree, passes with fixes/c18_graphite_empty_answer.patch.

import (
	"fmt"
	"net/http"
	"net/http/httptest"
	"strings"
	"testing"

	"github.com/nsqio/nsq/internal/test"
)

func TestR5HGraphiteEmptyAnswer(t *testing.T) {
	answers := []string{
		`[]`,
		`[{"target":"t","datapoints":[]}]`,
		`[{"target":"t","datapoints":[[]]}]`,
		`[{"target":"t","datapoints":[[null,1411000000]]}]`,
	}
	for _, answer := range answers {
		answer := answer
		graphite := httptest.NewServer(http.HandlerFunc(func(w http.ResponseWriter, r *http.Request) {
			w.Header().Set("Content-Type", "application/json")
			fmt.Fprint(w, answer)
		}))

		opts := NewOptions()
		opts.HTTPAddress = "127.0.0.1:0"
		opts.NSQDHTTPAddresses = []string{"127.0.0.1:4151"}
		opts.GraphiteURL = graphite.URL
		opts.Logger = test.NewTestLogger(t)
		nsqadmin1, err := New(opts)
		if err != nil {
			t.Fatal(err)
		}
		admin := NewHTTPServer(nsqadmin1)

		req := httptest.NewRequest("GET", "/api/graphite?metric=rate&target=nosuch", nil)
		w := httptest.NewRecorder()
		admin.ServeHTTP(w, req)
		nsqadmin1.Exit()
		graphite.Close()
		if w.Code != 200 || !strings.Contains(w.Body.String(), `"N/A"`) {
			t.Fatalf("GET /api/graphite with the Graphite answer %s: status %d body %s, want 200 with rate N/A",
				answer, w.Code, strings.TrimSpace(w.Body.String()))
		}
	}
}
