package nsqadmin

// Replay for (*httpServer).channelHandler/safety[nil] (nsqadmin/http.go:333):
// `channelStats[channelName].Clients` dereferences the map entry without checking that any nsqd
// reported that channel. A real nsqd carries the topic but not the channel; nsqadmin's channel view
// GET /api/topics/:topic/:channel must answer (C18: "nsqadmin itself never crashes"), but the handler
// panics with a nil pointer dereference (net/http closes the connection without a response).

import (
	"fmt"
	"net/http"
	"os"
	"testing"
	"time"

	"github.com/nsqio/nsq/internal/test"
	"github.com/nsqio/nsq/nsqd"
)

func TestVerifReplayChannelViewMissingChannel(t *testing.T) {
	lgr := test.NewTestLogger(t)

	opts := nsqd.NewOptions()
	opts.TCPAddress = "127.0.0.1:0"
	opts.HTTPAddress = "127.0.0.1:0"
	opts.BroadcastAddress = "127.0.0.1"
	opts.Logger = lgr
	tmpDir, err := os.MkdirTemp("", "nsq-test-")
	if err != nil {
		t.Fatal(err)
	}
	defer os.RemoveAll(tmpDir)
	opts.DataPath = tmpDir
	n, err := nsqd.New(opts)
	if err != nil {
		t.Fatal(err)
	}
	go func() { _ = n.Main() }()
	defer n.Exit()
	time.Sleep(100 * time.Millisecond)

	topicName := "verif_replay_channel_view"
	n.GetTopic(topicName).GetChannel("present")

	aopts := NewOptions()
	aopts.HTTPAddress = "127.0.0.1:0"
	aopts.NSQDHTTPAddresses = []string{n.RealHTTPAddr().String()}
	aopts.Logger = lgr
	admin, err := New(aopts)
	if err != nil {
		t.Fatal(err)
	}
	go func() { _ = admin.Main() }()
	defer admin.Exit()
	time.Sleep(200 * time.Millisecond)

	url := fmt.Sprintf("http://%s/api/topics/%s/%s", admin.RealHTTPAddr(), topicName, "absent")
	resp, err := http.Get(url)
	if err != nil {
		t.Fatalf("GET %s: no response at all (handler crashed): %v", url, err)
	}
	resp.Body.Close()
	if resp.StatusCode >= 500 {
		t.Fatalf("GET %s: status %d", url, resp.StatusCode)
	}
}
