package nsqlookupd

// Replay of the counterexample family to doDeleteTopic/ensures[only-this-topic] (and the same clause of doLookup, doChannels,
// doTombstoneTopicProducer): the request argument topic is the registry wildcard "*". The handlers hand the unvalidated name
// to FindRegistrations / FindProducers, where "*" matches every key, so
//   POST /topic/delete?topic=*  removes the channel and topic registrations of EVERY topic,
//   GET  /lookup?topic=*        answers 200 with the channels and producers of every topic,
//   GET  /channels?topic=*      lists the channels of every topic.
// A plain registry model has no topic named "*": delete changes nothing, lookup is 404, channels is empty.
// The test fails when the defect reproduces.

import (
	"net/http"
	"net/http/httptest"
	"strings"
	"testing"
)

func TestVerifReplayHTTPWildcardTopic(t *testing.T) {
	opts := NewOptions()
	opts.Logger = nil
	opts.TCPAddress = "127.0.0.1:0"
	opts.HTTPAddress = "127.0.0.1:0"
	l, err := New(opts)
	if err != nil {
		t.Fatal(err)
	}
	defer l.Exit()
	srv := newHTTPServer(l)
	do := func(method, path string) (int, string) {
		w := httptest.NewRecorder()
		req := httptest.NewRequest(method, path, strings.NewReader(""))
		srv.ServeHTTP(w, req)
		return w.Code, w.Body.String()
	}

	// a well-behaved producer's registrations: two topics, one channel each
	pi := &PeerInfo{id: "127.0.0.1:5000", BroadcastAddress: "host", TCPPort: 4150, HTTPPort: 4151}
	for _, topic := range []string{"alpha", "beta"} {
		l.DB.AddProducer(Registration{"topic", topic, ""}, &Producer{peerInfo: pi})
		l.DB.AddProducer(Registration{"channel", topic, "ch_" + topic}, &Producer{peerInfo: pi})
	}

	if code, body := do("GET", "/channels?topic=*"); code == http.StatusOK && strings.Contains(body, "ch_alpha") {
		t.Errorf("GET /channels?topic=* lists the channels of other topics: %d %s", code, body)
	}
	if code, body := do("GET", "/lookup?topic=*"); code == http.StatusOK {
		t.Errorf("GET /lookup?topic=* answered 200 although no topic \"*\" is registered: %s", body)
	}

	before := len(l.DB.FindRegistrations("topic", "*", "")) + len(l.DB.FindRegistrations("channel", "*", "*"))
	code, _ := do("POST", "/topic/delete?topic=*")
	after := len(l.DB.FindRegistrations("topic", "*", "")) + len(l.DB.FindRegistrations("channel", "*", "*"))
	if after != before {
		t.Errorf("POST /topic/delete?topic=* (status %d) removed %d of %d registrations belonging to other topics", code, before-after, before)
	}
}
