package nsqd

import (
	"testing"
	"time"

	"github.com/nsqio/nsq/internal/test"
)

// Observation O1 (round 4, area A): with --queue-scan-worker-pool-max=0 resizePool sets the ideal pool size to 0
// (the `else if idealPoolSize > max` branch, taken as soon as there are 4 channels), no queueScanWorker exists, and a deferred message is never released.
func TestR4AO1PoolMaxZeroNeverScans(t *testing.T) {
	for _, max := range []int{4, 0} {
		opts := NewOptions()
		opts.Logger = test.NewTestLogger(t)
		opts.DataPath = t.TempDir()
		opts.QueueScanInterval = 20 * time.Millisecond
		opts.QueueScanRefreshInterval = 50 * time.Millisecond
		opts.QueueScanWorkerPoolMax = max
		_, _, nsqd := mustStartNSQD(opts)
		topic := nsqd.GetTopic("r4a_o1")
		ch := topic.GetChannel("ch")
		for _, n := range []string{"a", "b", "c", "d", "e", "f", "g"} {
			topic.GetChannel(n) // 8 channels: int(8*0.25) = 2 > 0 = max, so the ideal pool size becomes max = 0
		}
		time.Sleep(200 * time.Millisecond)
		msg := NewMessage(topic.GenerateID(), []byte("x"))
		ch.StartDeferredTimeout(msg, 50*time.Millisecond)
		released := false
		select {
		case <-ch.memoryMsgChan:
			released = true
		case <-time.After(2 * time.Second):
		}
		t.Logf("pool max %d: poolSize=%d released=%v", max, nsqd.poolSize, released)
		if !released {
			t.Errorf("pool max %d: deferred message not released 2s after a 50ms delay", max)
		}
		go nsqd.Exit() // with pool size 0 the scan loop may be blocked; do not wait for it
		time.Sleep(100 * time.Millisecond)
	}
}
