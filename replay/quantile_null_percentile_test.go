package quantile

// Replay of (*E2eProcessingLatencyAggregate).UnmarshalJSON/safety[nilmap]: a null entry in
// "percentiles" makes the decoder write into a nil map.

import (
	"encoding/json"
	"testing"
)

func TestVerifReplayNullPercentile(t *testing.T) {
	doc := `{"count":1,"percentiles":[null]}`
	defer func() {
		if r := recover(); r != nil {
			t.Fatalf("%s: panic: %v", doc, r)
		}
	}()
	var e E2eProcessingLatencyAggregate
	json.Unmarshal([]byte(doc), &e)
}
