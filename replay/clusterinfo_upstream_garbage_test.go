package clusterinfo

// Replay of the C18 counterexamples: one-line upstream JSON documents that crash nsqadmin's
// aggregation code. Each document is served by a real HTTP server and fetched through the real
// ClusterInfo entry points (GetNSQDStats, GetLookupdProducers). The crash happens in a worker
// goroutine and would kill the test binary, so every document is replayed in a child process
// (the test binary re-executed with VERIF_REPLAY_DOC set); a non-zero exit of the child is a failure.

import (
	"encoding/json"
	"net"
	"net/http"
	"net/http/httptest"
	"os"
	"os/exec"
	"strconv"
	"testing"
	"time"

	"github.com/nsqio/nsq/internal/http_api"
)

func verifChild(t *testing.T, test, mode, doc string) {
	t.Helper()
	cmd := exec.Command(os.Args[0], "-test.run=^"+test+"$")
	cmd.Env = append(os.Environ(), "VERIF_REPLAY_MODE="+mode, "VERIF_REPLAY_DOC="+doc)
	out, err := cmd.CombinedOutput()
	if err != nil {
		if len(out) > 600 {
			out = out[:600]
		}
		t.Errorf("upstream document %s crashed the process (%v):\n%s", doc, err, out)
	}
}

func verifUpstream(doc string) (srv *httptest.Server, addr string, p *Producer) {
	srv = httptest.NewServer(http.HandlerFunc(func(w http.ResponseWriter, r *http.Request) {
		w.Header().Set("Content-Type", "application/json")
		w.Write([]byte(doc))
	}))
	addr = srv.Listener.Addr().String()
	host, port, _ := net.SplitHostPort(addr)
	n, _ := strconv.Atoi(port)
	return srv, addr, &Producer{BroadcastAddress: host, HTTPPort: n, Hostname: "h"}
}

// (*Producer).UnmarshalJSON/safety[index]: "tombstones" shorter than "topics".
func TestVerifReplayProducerShortTombstones(t *testing.T) {
	doc := `{"topics":["t"],"tombstones":[]}`
	defer func() {
		if r := recover(); r != nil {
			t.Fatalf("%s: panic: %v", doc, r)
		}
	}()
	var p Producer
	json.Unmarshal([]byte(doc), &p)
}

// GetLookupdProducers$1: a null element in "producers" (data.go:203), and the short tombstones
// array reached through the real fan-out.
func TestVerifReplayLookupdProducersGarbage(t *testing.T) {
	if doc := os.Getenv("VERIF_REPLAY_DOC"); os.Getenv("VERIF_REPLAY_MODE") == "lookupd" {
		srv, addr, _ := verifUpstream(doc)
		defer srv.Close()
		ci := New(nil, http_api.NewClient(nil, 2*time.Second, 2*time.Second))
		ci.GetLookupdProducers([]string{addr})
		return
	}
	for _, doc := range []string{
		`{"producers":[null]}`,
		`{"producers":[{"broadcast_address":"a","topics":["t"],"tombstones":[]}]}`,
	} {
		verifChild(t, "TestVerifReplayLookupdProducersGarbage", "lookupd", doc)
	}
}

// GetNSQDStats$1/safety[nil] (data.go:590 topic, 600 channel, 619 client) and
// requires[ChannelStats.Add.a-has-latency] (data.go:623 -> quantile Add dereferences a nil aggregate).
func TestVerifReplayNSQDStatsGarbage(t *testing.T) {
	if doc := os.Getenv("VERIF_REPLAY_DOC"); os.Getenv("VERIF_REPLAY_MODE") == "nsqd" {
		srv, _, p := verifUpstream(doc)
		defer srv.Close()
		ci := New(nil, http_api.NewClient(nil, 2*time.Second, 2*time.Second))
		ci.GetNSQDStats(Producers{p}, "", "", true)
		return
	}
	for _, doc := range []string{
		`{"topics":[null]}`,
		`{"topics":[{"topic_name":"t","channels":[null]}]}`,
		`{"topics":[{"topic_name":"t","channels":[{"channel_name":"c","clients":[null],"e2e_processing_latency":{"count":0,"percentiles":null}}]}]}`,
		`{"topics":[{"topic_name":"t","channels":[{"channel_name":"c","e2e_processing_latency":null}]}]}`,
		`{"topics":[{"topic_name":"t","channels":[{"channel_name":"c","e2e_processing_latency":{"count":1,"percentiles":[null]}}]}]}`,
	} {
		verifChild(t, "TestVerifReplayNSQDStatsGarbage", "nsqd", doc)
	}
}
