package nsqd

// Replay of the counterexample family to (*httpServer).doPauseTopic/ensures[ack-means-persisted] and
// (*httpServer).doPauseChannel/ensures[ack-means-persisted] (C06: the restarted daemon "reflects every
// pause/unpause that was acknowledged over HTTP"). Both handlers call PersistMetadata and throw its error
// away, so when the metadata cannot be written (model: os.OpenFile / Write / Sync / Rename returns an error)
// the request is still answered 200 while the file on disk keeps the old flag; a SIGKILL afterwards
// restarts nsqd with the topic / channel unpaused.
// The write failure is produced by taking the data directory away for the duration of the request (as an
// unmounted or failed volume would) and putting it back afterwards. The daemon is NOT shut down gracefully
// before the file is inspected (Exit would persist again): the file is read as a restart after SIGKILL
// would read it. The test fails when the defect reproduces.

import (
	"encoding/json"
	"fmt"
	"net/http"
	"os"
	"path"
	"testing"
)

func TestVerifReplayPauseAckedButNotPersisted(t *testing.T) {
	opts := NewOptions()
	opts.Logger = nil
	_, httpAddr, nsqd := mustStartNSQD(opts)
	dir := opts.DataPath
	offline := dir + ".offline"
	defer os.RemoveAll(dir)
	defer os.RemoveAll(offline)
	defer nsqd.Exit()

	topicName := "verif_replay_pause_ack"
	topic := nsqd.GetTopic(topicName)
	topic.GetChannel("ch")
	nsqd.Lock()
	err := nsqd.PersistMetadata() // the file now says: topic and channel exist, not paused
	nsqd.Unlock()
	if err != nil {
		t.Fatal(err)
	}

	onDisk := func() (topicPaused, chanPaused bool) {
		data, err := os.ReadFile(path.Join(dir, "nsqd.dat"))
		if err != nil {
			t.Fatal(err)
		}
		var m Metadata
		if err := json.Unmarshal(data, &m); err != nil {
			t.Fatalf("metadata on disk is not loadable: %s", err)
		}
		for _, tm := range m.Topics {
			if tm.Name == topicName {
				topicPaused = tm.Paused
				for _, cm := range tm.Channels {
					if cm.Name == "ch" {
						chanPaused = cm.Paused
					}
				}
			}
		}
		return
	}

	post := func(uri string) int {
		// the volume goes away: every write of the metadata protocol fails
		if err := os.Rename(dir, offline); err != nil {
			t.Fatal(err)
		}
		resp, err := http.Post(fmt.Sprintf("http://%s%s", httpAddr, uri), "application/octet-stream", nil)
		// ... and comes back
		if err2 := os.Rename(offline, dir); err2 != nil {
			t.Fatal(err2)
		}
		if err != nil {
			t.Fatal(err)
		}
		resp.Body.Close()
		return resp.StatusCode
	}

	code := post("/topic/pause?topic=" + topicName)
	if tp, _ := onDisk(); code == 200 && !tp {
		t.Errorf("POST /topic/pause was acknowledged with 200 although PersistMetadata failed: "+
			"the metadata on disk still says paused=%v, a restart after SIGKILL un-pauses the topic", tp)
	}
	code = post("/channel/pause?topic=" + topicName + "&channel=ch")
	if _, cp := onDisk(); code == 200 && !cp {
		t.Errorf("POST /channel/pause was acknowledged with 200 although PersistMetadata failed: "+
			"the metadata on disk still says paused=%v, a restart after SIGKILL un-pauses the channel", cp)
	}
}
