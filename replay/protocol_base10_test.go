package protocol

// Replay adapter for ByteToBase10 obligations (value / accept / digits / loop invariants): the real
// function is compared with math/big on the solver model's input (VERIF_MODEL, when the solver gave
// one) and on the boundary inputs of the failed clauses (64-bit limits). Fails when a difference shows.

import (
	"math/big"
	"os"
	"regexp"
	"strconv"
	"testing"
)

func modelBytes() []byte {
	m := os.Getenv("VERIF_MODEL")
	if m == "" {
		return nil
	}
	lenRe := regexp.MustCompile(`\(\(\(slen p_b\) (\d+)\)\)`)
	lm := lenRe.FindStringSubmatch(m)
	if lm == nil {
		return nil
	}
	n, _ := strconv.Atoi(lm[1])
	if n > 24 {
		return nil
	}
	elRe := regexp.MustCompile(`\(ix \(soff p_b\) (\d+)\)\) (\d+)\)\)`)
	out := make([]byte, n)
	for _, e := range elRe.FindAllStringSubmatch(m, -1) {
		i, _ := strconv.Atoi(e[1])
		v, _ := strconv.Atoi(e[2])
		if i < n {
			out[i] = byte(v)
		}
	}
	return out
}

func TestVerifReplayByteToBase10(t *testing.T) {
	inputs := [][]byte{
		[]byte("0"), []byte("18446744073709551615"), []byte("18446744073709551616"), []byte("18446744073709551617"),
		[]byte("18446744073709551619"), []byte("184467440737095516161500"), []byte("99999999999999999999"),
		[]byte("28446744073709551615"), []byte("1844674407370955161"), []byte("00000000000000000000001"), []byte(""),
		[]byte("12a"), []byte("/1"), []byte(":1"), []byte("9:"),
	}
	if mb := modelBytes(); mb != nil {
		inputs = append([][]byte{mb}, inputs...)
	}
	max := new(big.Int).SetUint64(^uint64(0))
	for _, in := range inputs {
		allDigits := true
		for _, c := range in {
			if c < '0' || c > '9' {
				allDigits = false
			}
		}
		want := new(big.Int)
		if allDigits && len(in) > 0 {
			want.SetString(string(in), 10)
		}
		got, err := ByteToBase10(in)
		switch {
		case !allDigits:
			if err == nil {
				t.Errorf("ByteToBase10(%q) accepted a non-digit (= %d)", in, got)
			}
		case want.Cmp(max) > 0:
			if err == nil {
				t.Errorf("ByteToBase10(%q) = %d, nil; the number written does not fit in 64 bits", in, got)
			}
		default:
			if err != nil {
				t.Errorf("ByteToBase10(%q) rejected a number that fits in 64 bits: %v", in, err)
			} else if new(big.Int).SetUint64(got).Cmp(want) != 0 {
				t.Errorf("ByteToBase10(%q) = %d, want %s", in, got, want)
			}
		}
		if err != nil && got != 0 {
			t.Errorf("ByteToBase10(%q) returned %d together with an error", in, got)
		}
	}
}
