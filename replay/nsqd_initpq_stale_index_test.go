package nsqd

// Replay of the counterexample to initPQ/lock[inFlightMutex.guarantee.removed-means-unindexed]:
// a message that was a member of the in-flight heap when Empty ran keeps its old back-index, so the
// second half of a FIN that had already popped it from the map indexes the new heap out of range.
// The steps of one legal schedule are executed in order on the real code.

import (
	"os"
	"testing"
	"time"
)

func TestVerifReplayInitPQStaleIndex(t *testing.T) {
	opts := NewOptions()
	opts.Logger = nil
	opts.TCPAddress = "127.0.0.1:0"
	opts.HTTPAddress = "127.0.0.1:0"
	opts.HTTPSAddress = "127.0.0.1:0"
	dir, err := os.MkdirTemp("", "nsq-verif-replay-")
	if err != nil {
		t.Fatal(err)
	}
	defer os.RemoveAll(dir)
	opts.DataPath = dir
	nsqd, err := New(opts)
	if err != nil {
		t.Fatal(err)
	}
	topic := nsqd.GetTopic("replay_initpq")
	ch := topic.GetChannel("ch")
	// two messages in flight, so that the stale index (1) is out of range of the fresh, empty heap
	m0 := NewMessage(topic.GenerateID(), []byte("a"))
	m1 := NewMessage(topic.GenerateID(), []byte("b"))
	ch.StartInFlightTimeout(m0, 7, time.Minute)
	ch.StartInFlightTimeout(m1, 7, 2*time.Minute)
	victim := m1
	if victim.index == 0 {
		victim = m0
	}
	// FIN, first half: the map pop
	msg, err := ch.popInFlightMessage(7, victim.ID)
	if err != nil {
		t.Fatal(err)
	}
	// Empty arrives between the two critical sections of FIN
	if err := ch.Empty(); err != nil {
		t.Fatal(err)
	}
	// FIN, second half
	func() {
		defer func() {
			if r := recover(); r != nil {
				t.Fatalf("removeFromInFlightPQ panicked (while holding inFlightMutex) with stale back-index %d: %v", msg.index, r)
			}
		}()
		ch.removeFromInFlightPQ(msg)
	}()
	nsqd.Exit()
}
